#!/bin/bash
# usage: tools/verify_mutant.sh <dir with patch.diff and demo.py> -> prints one JSON line: tests with change, demo rc with / without
D=$(readlink -f "$1"); WT=/var/tmp/acryo-verify-$$
git -C /repo worktree add -q --detach $WT HEAD
cd $WT
git apply --recount "$D/patch.diff" || { echo "{\"dir\":\"$D\",\"error\":\"patch does not apply\"}"; git -C /repo worktree remove --force $WT; exit 1; }
T=$(PYTHONPATH=$WT timeout 1500 /venv/bin/python -m pytest -q -p no:cacheprovider -n 6 --timeout=900 tests/ 2>&1 | tail -1)
PYTHONPATH=$WT timeout 900 /venv/bin/python "$D/demo.py" > /tmp/demo_with_$$.log 2>&1; RC1=$?
git checkout -q -- . ; git clean -fdq
PYTHONPATH=$WT timeout 900 /venv/bin/python "$D/demo.py" > /tmp/demo_without_$$.log 2>&1; RC0=$?
cd /; git -C /repo worktree remove --force $WT
echo "{\"dir\":\"$D\",\"tests_with_change\":\"$T\",\"demo_rc_with_change\":$RC1,\"demo_rc_without_change\":$RC0}"
rm -f /tmp/demo_with_$$.log /tmp/demo_without_$$.log

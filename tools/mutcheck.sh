#!/bin/bash
# usage: tools/mutcheck.sh <patch.diff> <ID> [extra vcheck args]   -- runs a check against a scratch copy of /repo with the patch applied
set -u
PATCH=$(readlink -f "$1"); ID=$2; shift 2
MUT=/var/tmp/acryo-mut
if [ ! -d $MUT ]; then git -C /repo worktree add -q --detach $MUT HEAD; fi
git -C $MUT checkout -q --detach $(git -C /repo rev-parse HEAD) 2>/dev/null
git -C $MUT checkout -q -- . && git -C $MUT clean -fdq
git -C $MUT apply --recount "$PATCH" || { echo "PATCH DOES NOT APPLY"; exit 3; }
cd /verif && ACRYO_SRC=$MUT ./vcheck $ID --no-evidence --replay-dir /var/tmp/acryo-mut-replays "$@"
rc=$?
git -C $MUT checkout -q -- . && git -C $MUT clean -fdq
exit $rc

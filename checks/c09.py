"""C09 - averages are plain arithmetic means of the loaded subtomograms; split averaging partitions.

Worlds: random-valued (membership decoded by least squares against the loaded stack) and one-hot
(membership decoded exactly: every molecule owns one voxel of the box).  Swarm: storage layouts,
`array.chunk-size` (drives rechunk("auto")), fusion, schedules, ambient RNG, seeds, n_set (DESIGN 4.3)."""
from __future__ import annotations

import random

import numpy as np

from checks import common as C
from simkit import world as W
from simkit.compare import EPS32, digest, max_abs_diff
from simkit.sched import POLICIES, Sim, SimDeadlock, seed_uuid

PROPERTY = "C09"
BUDGET = {"quick": {"runs": 480, "timeout": 150.0}, "thorough": {"runs": 16000, "timeout": 300.0}}
LEVEL = "exploration"

OPS = ["average", "average", "average_split", "average_split", "fsc_halfmaps", "group_average", "group_average_split", "batch_parts", "average_shape"]


def gen_schedule(rng):
    gran = rng.choice(["task", "task", "line", "opcode-some"])
    p = 0.0 if gran == "task" else rng.choice([0.01, 0.05, 0.2])
    return {"mode": "prng", "seed": rng.randrange(1 << 40), "workers": rng.choice([1, 2, 3, 4, 8, 16]), "granularity": gran,
            "preempt_p": p, "policy": rng.choice(list(POLICIES)), "pct_d": rng.randint(1, 3), "hot_boost": rng.choice([0.0, 0.3]),
            "faults": rng.choice([{}, {}, {}, {"F7": 0.1}, {"F10": 0.5}, {"F7": 0.1, "F10": 0.3}])}


def gen_onehot_world(rng):
    b = rng.choice([3, 3, 5])
    cell = b + 2
    n_tomo = rng.choice([1, 1, 2, 3])
    grid = [rng.randint(3, 5) for _ in range(3)]
    shapes = [[g * cell + 2 for g in grid] for _ in range(n_tomo)]
    max_n = min(b ** 3, grid[0] * grid[1] * grid[2])
    n_mol = [rng.randint(1, min(10, max_n)) for _ in range(n_tomo)]
    if n_tomo == 1 and rng.random() < 0.5:
        n_mol = [rng.randint(2, min(24, max_n))]
    while sum(n_mol) > b ** 3:
        n_mol[n_mol.index(max(n_mol))] -= 1
    storage = []
    for t in range(n_tomo):
        kind = rng.choice(["numpy", "dask", "sim"])
        if kind == "numpy":
            storage.append({"kind": "numpy", "chunks": None, "style": "numpy"})
        else:
            ch, st = W.gen_chunks(rng, shapes[t])
            storage.append({"kind": kind, "chunks": ch, "style": st})
    return {"kind": "onehot", "box": [b, b, b], "cell": cell, "grid": grid, "n_tomo": n_tomo, "shapes": shapes, "n_mol": n_mol,
            "order": rng.choice([0, 1]), "scale": rng.choice([0.5, 1.0, 2.0]), "corner_safe": rng.random() < 0.2,
            "loader": "single" if n_tomo == 1 else "batch", "batch_order": rng.choice(["contiguous", "interleaved", "shuffled"]),
            "storage": storage, "seed": rng.randrange(1 << 30)}


def generate(seed: int, tier: str):
    rng = random.Random(seed)
    kind = rng.choice(["random", "random", "onehot", "onehot", "mock"])
    if kind == "random":
        w = C.gen_world(rng, max_mol=24, max_box=7)
        w["kind"] = "random"
        # batches are also reached through a short legal history: drop one tomogram by filtering, add it back
        w["history"] = bool(w["loader"] == "batch" and rng.random() < 0.5)
        w["history_drop"] = rng.randrange(w["n_tomo"])
    elif kind == "onehot":
        w = gen_onehot_world(rng)
    else:
        b = rng.choice([5, 6, 7])
        w = {"kind": "mock", "box": [b, b, b], "n_mol": [rng.randint(1, 12)], "order": rng.choice([1, 3]), "scale": rng.choice([0.5, 1.0]),
             "seed": rng.randrange(1 << 30), "storage": [{"kind": "numpy", "style": "numpy", "chunks": None}], "loader": "mock",
             # projection / back-projection with per-molecule seeded noise (the same loader object is loaded several times per run)
             "noisy": rng.random() < 0.5, "noise": rng.choice([0.2, 0.6]), "tilts": rng.choice([3, 5])}
        if w["noisy"]:
            w["n_mol"] = [rng.randint(1, 5)]
    n_ops = rng.randint(1, 3)
    ops = []
    for _ in range(n_ops):
        name = rng.choice(OPS)
        op = {"op": name}
        if "split" in name or name == "fsc_halfmaps":
            # few distinct (seed, n_set) pairs, so that consecutive operations of one run often ask for the same split
            op["n_set"] = rng.choice([1, 1, 2, 2, 3, 4])
            op["seed"] = rng.choice([0, 0, 1, rng.randrange(1000)])
        if name == "average_shape":
            # an explicit output_shape that differs from the loader's own, on the whole loader or on its first molecule only
            op["delta"] = rng.choice([[1, 0, 0], [0, -1, 1], [2, 2, 2], [-1, -1, -1]])
            op["head"] = rng.choice([None, 1, 1, 2])
            op["split"] = rng.random() < 0.3
        if name == "fsc_halfmaps":
            op["zero_norm"] = rng.random() < 0.5
        ops.append(op)
    return {"property": PROPERTY, "seed": seed, "world": w, "knobs": W.gen_knobs(rng), "ops": ops, "schedule": gen_schedule(rng),
            "uuid_seed": rng.randrange(1 << 30), "np_seed": rng.randrange(1 << 30), "np_seed_ref": rng.randrange(1 << 30)}


# ------------------------------------------------------------------------------------------
class Obj:
    kind = "other"
    box = None


def build(w, eager=False):
    """Returns an object with .loader, .n (molecules), .offsets (one-hot: voxel index of molecule i in loader order)."""
    from acryo import BatchLoader, Molecules, SubtomogramLoader

    if w["kind"] == "random":
        ws = C.eager_twin_world(w) if eager else w
        world = C.build_world(ws)
        o = Obj()
        o.loader, o.n, o.offsets, o.tomos = world.loader, sum(w["n_mol"]), None, world.tomos
        o.kind, o.box = "random", tuple(w["box"])
        o.parts = [(world.tomos[t], world.mols[t]) for t in range(w["n_tomo"])]  # independent model of the batch
        if w.get("history"):
            import polars as pl

            k = w["history_drop"]
            b2 = world.loader.filter(pl.col("image-id") != k)
            b2.add_tomogram(world.images[k], world.mols[k])
            o.loader = b2
        o.kw = dict(order=w["order"], scale=w["scale"], output_shape=tuple(w["box"]), corner_safe=w["corner_safe"])
        return o
    if w["kind"] == "mock":
        from acryo.loader._mock import MockLoader
        from scipy import ndimage as ndi
        from scipy.spatial.transform import Rotation

        rg = np.random.default_rng(w["seed"])
        tmpl = (ndi.gaussian_filter(rg.normal(size=w["box"]), 1.0) * 10).astype(np.float32)
        n = w["n_mol"][0]
        pos = rg.uniform(-1.0, 1.0, size=(n, 3)) * w["scale"]
        mol = Molecules(pos, Rotation.random(n, random_state=w["seed"] % 1000), features={"g": np.arange(n) % 2, "uid": np.arange(n)})
        o = Obj()
        if w.get("noisy"):
            o.loader = MockLoader(tmpl, mol, noise=w["noise"], degrees=np.linspace(-60, 60, w["tilts"]), order=w["order"], scale=w["scale"])
        else:
            o.loader = MockLoader(tmpl, mol, order=w["order"], scale=w["scale"])
        o.n, o.offsets, o.tomos = n, None, [tmpl]
        return o
    # one-hot
    rg = np.random.default_rng(w["seed"])
    b = w["box"][0]
    cell = w["cell"]
    total = sum(w["n_mol"])
    all_off = rg.permutation(b ** 3)[:total]
    o = Obj()
    o.tomos = []
    images, mols = [], []
    uid = 0
    offsets = []
    for t in range(w["n_tomo"]):
        shape = tuple(w["shapes"][t])
        arr = np.zeros(shape, dtype=np.float32)
        n = w["n_mol"][t]
        g = w["grid"]
        cells = rg.permutation(g[0] * g[1] * g[2])[:n]
        pos_px = np.zeros((n, 3))
        for i, cidx in enumerate(cells):
            cz, cy, cx = np.unravel_index(int(cidx), g)
            centre = np.array([cz, cy, cx]) * cell + cell // 2 + 1
            off = np.array(np.unravel_index(int(all_off[uid + i]), (b, b, b))) - (b - 1) // 2
            arr[tuple(centre + off)] = 1.0
            pos_px[i] = centre
            offsets.append(int(all_off[uid + i]))
        st = w["storage"][t]
        if eager:
            img = arr
        else:
            img, _ = W.wrap_storage(arr, st["kind"], st["chunks"], name=f"tomo{t}")
        o.tomos.append(arr)
        images.append(img)
        mols.append(Molecules(pos_px * w["scale"], features={"uid": np.arange(uid, uid + n, dtype=np.int64), "g": (np.arange(uid, uid + n) % 2).astype(np.int64)}))
        uid += n
    kw = dict(order=w["order"], scale=w["scale"], output_shape=tuple(w["box"]), corner_safe=w["corner_safe"])
    if w["loader"] == "single":
        o.loader = SubtomogramLoader(images[0], mols[0], **kw)
        perm = list(range(total))
    else:
        bl = BatchLoader(**kw)
        for img, mol in zip(images, mols):
            bl.add_tomogram(img, mol)
        perm = list(range(total))
        if w["batch_order"] == "shuffled":
            perm = [int(x) for x in np.random.default_rng(w["seed"] + 5).permutation(total)]
        elif w["batch_order"] == "interleaved":
            ids = bl.molecules.features["image-id"].to_list()
            rank, keyed = {}, []
            for i, k in enumerate(ids):
                rank[k] = rank.get(k, -1) + 1
                keyed.append((rank[k], i))
            perm = [i for _, i in sorted(keyed)]
        if perm != list(range(total)):
            bl = bl.replace(molecules=bl.molecules.subset(np.array(perm)))
        o.loader = bl
    o.n = total
    o.offsets = [offsets[i] for i in perm]  # voxel (flat index in the box) owned by loader row i
    return o


def run_op(op, o):
    ld = o.loader
    k = op["op"]
    if k == "average":
        return ld.average()
    if k == "average_split":
        return ld.average_split(n_set=op["n_set"], seed=op["seed"], squeeze=False)
    if k == "fsc_halfmaps":
        r = ld.fsc_with_halfmaps(mask=None, seed=op["seed"], n_set=op["n_set"], zero_norm=op["zero_norm"], squeeze=False, dfreq=0.2)
        return {"h0": np.asarray(r.halfmaps[0]), "h1": np.asarray(r.halfmaps[1])}
    if k == "group_average":
        return dict(ld.groupby("g").average())
    if k == "group_average_split":
        return dict(ld.groupby("g").average_split(n_set=op["n_set"], seed=op["seed"], squeeze=False))
    if k == "average_shape":
        if o.kind != "random":
            return {"skipped": True}
        shape = tuple(max(3, b + d) for b, d in zip(o.box, op["delta"]))
        sub = ld if op["head"] is None else ld.head(op["head"])
        out = {"shape": list(shape), "avg": sub.average(output_shape=shape), "stack": np.asarray(sub.asnumpy(output_shape=shape), dtype=np.float64)}
        if op["split"] and sub.count() >= 2:
            out["split"] = sub.average_split(n_set=1, seed=0, squeeze=False, output_shape=shape)
        return out
    if k == "batch_parts":
        if not hasattr(ld, "loaders"):
            return {"avg": ld.average(), "parts": None}
        return {"avg": ld.average(), "parts": [(sub.count(), sub.average()) for sub in ld.loaders]}
    raise ValueError(k)


def _run_all(sc, sim, knobs, np_seed, eager=False):
    import dask

    W.reset_world(np_seed)
    seed_uuid(sc["uuid_seed"])
    o = build(sc["world"], eager=eager)
    outs = []
    with W.knobs_ctx(knobs), dask.config.set({"scheduler": sim.get}):
        for op in sc["ops"]:
            outs.append(C.outcome_of(lambda: run_op(op, o)))
        stack = None
        if not eager:
            stack = C.outcome_of(lambda: o.loader.asnumpy())
    return o, outs, stack


def _reference_side(sc):
    o_ref, ref, stack_ref = _run_all(sc, Sim(mode="sequential"), sc["knobs"], sc["np_seed_ref"])
    ref_plain = [(st, (digest(v) if st == "ok" else v)) for st, v in ref]
    return ref_plain, (stack_ref[0], np.asarray(stack_ref[1]) if stack_ref[0] == "ok" else stack_ref[1])


class V(Exception):
    def __init__(self, kind, site, detail):
        super().__init__(detail)
        self.kind, self.site, self.detail = kind, site, detail


def _group_stack(o, idx, knobs):
    """Subtomograms of a group's own loader.  Grouping sends the molecules through one data-frame round trip
    (orientations as float32 rotation vectors), which legitimately perturbs them by ~1e-7; the expectation does the same."""
    import dask

    ld = o.loader
    sub_m = ld.molecules.subset(np.array(idx))
    sub_m = type(sub_m).from_dataframe(sub_m.to_dataframe())
    with W.knobs_ctx(knobs), dask.config.set({"scheduler": Sim(mode="sequential").get}):
        return np.asarray(ld.replace(molecules=sub_m).asnumpy(), dtype=np.float64)


def _mean_tol(n, x):
    return 8 * EPS32 * max(n, 1) * max(float(np.max(np.abs(x))) if np.size(x) else 0.0, 1e-30) + 1e-12


def decode_onehot(img, offsets, site):
    """Members of a mean image in a one-hot world: set of loader rows, and check every value is 1/k."""
    flat = np.asarray(img, dtype=np.float64).ravel()
    nz = np.flatnonzero(np.abs(flat) > 1e-9)
    owner = {off: i for i, off in enumerate(offsets)}
    rows = set()
    for v in nz:
        if int(v) not in owner:
            raise V("not-a-mean", site, f"mean image is non-zero ({flat[v]:.4g}) at voxel {int(v)} that no molecule of this loader owns")
        rows.add(owner[int(v)])
    k = len(nz)
    if k and np.abs(flat[nz] - 1.0 / k).max() > 1e-6:
        raise V("not-a-mean", site, f"{k} members but values range {flat[nz].min():.6g}..{flat[nz].max():.6g} instead of 1/{k}")
    return rows


def decode_lstsq(img, stack, site):
    """Members of a mean image in a random world: solve stack^T w = img; w must be 0 or 1/k."""
    n = stack.shape[0]
    A = stack.reshape(n, -1).astype(np.float64).T
    y = np.asarray(img, dtype=np.float64).ravel()
    sv = np.linalg.svd(A, compute_uv=False)
    if sv[-1] < 1e-6 * sv[0]:
        # two molecules load (nearly) identical subtomograms, e.g. same voxel at order 0: membership is not decidable
        return None
    w, *_ = np.linalg.lstsq(A, y, rcond=None)
    resid = np.abs(A @ w - y).max()
    scale = max(np.abs(y).max(), 1e-30)
    if resid > 1e-4 * scale + 1e-6:
        raise V("not-a-mean", site, f"image is not a linear combination of the loaded subtomograms (residual {resid:.3g})")
    members = set(int(i) for i in np.flatnonzero(w > 0.5 / n))
    k = len(members)
    if k == 0:
        raise V("empty-half", site, "no members")
    exp = np.zeros(n)
    exp[list(members)] = 1.0 / k
    if np.abs(w - exp).max() > 1e-3:
        raise V("not-a-mean", site, f"weights {np.round(w, 4).tolist()} are not 1/{k} on a subset")
    return members


def check_partition(h0, h1, n, site):
    if h0 & h1:
        raise V("halves-overlap", site, f"molecules {sorted(h0 & h1)} are in both halves")
    if (h0 | h1) != set(range(n)):
        raise V("halves-not-exhaustive", site, f"molecules {sorted(set(range(n)) - (h0 | h1))} are in neither half")
    if n >= 2 and (not h0 or not h1):
        raise V("empty-half", site, f"half sizes {len(h0)}/{len(h1)} for {n} molecules")


def execute(sc):
    w = sc["world"]
    violation = None
    hooks = {"caches": W.find_caches()}
    from simkit.compare import deep_equal

    hooks["deep_equal"] = deep_equal
    s = dict(sc["schedule"])
    mode = s.pop("mode", "prng")
    sim = Sim(seed=s.get("seed", 0), mode=mode, workers=s.get("workers", 4), granularity=s.get("granularity", "task"),
              preempt_p=s.get("preempt_p", 0.0), policy=s.get("policy", "uniform"), pct_d=s.get("pct_d", 2), hot_boost=s.get("hot_boost", 0.0),
              preempts=s.get("preempts"), choices=s.get("choices"), faults=s.get("faults"), fault_events=s.get("fault_events"), hooks=hooks)
    ref_sim = Sim(mode="sequential")
    notes = []
    memberships = {}
    checked = 0
    try:
        # reference: same layout + knobs, sequential, *different* ambient RNG state; in its own fork so that the simulated
        # execution below starts from pristine process state (no caches warmed by the reference)
        from simkit import runner

        ref, stack_ref = runner.call_in_fork(_reference_side, sc)
        try:
            o, out, stack_o = _run_all(sc, sim, sc["knobs"], sc["np_seed"])
        except SimDeadlock as e:
            raise V("deadlock", "scheduler", str(e))
        if sim.dup_mismatch:
            raise V("reexecution-differs", sim.dup_mismatch, "two executions of one task returned different values")
        if stack_ref[0] != "ok":
            notes.append(f"asnumpy raises sequentially: {stack_ref[1]}")
            raise StopIteration
        stack = np.asarray(stack_ref[1], dtype=np.float64)
        n = o.n
        for i, op in enumerate(sc["ops"]):
            name = op["op"]
            (st_r, v_r), (st_s, v_s) = ref[i], out[i]
            if st_r == "exc":
                notes.append(f"op{i} {name} raises sequentially: {v_r['type']}: {v_r['msg'][:100]}")
                continue
            if st_s == "exc":
                raise V("spurious-exception", sim.error_site or name, f"{name}: {v_s['type']}: {v_s['msg'][:200]}")
            # (7) schedule + ambient-RNG invariance, bitwise (same graph)
            if v_r != digest(v_s):
                raise V("schedule-dependent-result", name, f"{name}: result differs from the sequential reference")
            checked += 1
            if name == "average":
                exp = stack.mean(axis=0)
                d = max_abs_diff(v_s, exp)
                if d > _mean_tol(n, stack):
                    raise V("not-a-mean", name, f"average differs from the float64 mean of the {n} loaded subtomograms by {d:.3g} (> {_mean_tol(n, stack):.3g})")
                if w["kind"] == "onehot":
                    rows = decode_onehot(v_s, o.offsets, name)
                    if rows != set(range(n)):
                        raise V("not-a-mean", name, f"average contains molecules {sorted(rows)} of {n}")
            elif name == "average_shape":
                if v_s.get("skipped"):
                    continue
                st_ = v_s["stack"]
                if tuple(v_s["avg"].shape) != tuple(v_s["shape"]) or st_.shape[1:] != tuple(v_s["shape"]):
                    raise V("not-a-mean", name, f"average(output_shape={v_s['shape']}) returned shape {v_s['avg'].shape}, asnumpy {st_.shape}")
                if max_abs_diff(v_s["avg"], st_.mean(axis=0)) > _mean_tol(st_.shape[0], st_):
                    raise V("not-a-mean", name, f"average(output_shape={v_s['shape']}) of {st_.shape[0]} molecule(s) is not the mean of the subtomograms loaded with that shape")
                if "split" in v_s:
                    sp = np.asarray(v_s["split"], dtype=np.float64)
                    if sp.shape != (1, 2) + tuple(v_s["shape"]):
                        raise V("not-a-mean", name, f"average_split(output_shape=...) returned shape {sp.shape}")
            elif name == "batch_parts":
                if getattr(o, "parts", None) and w.get("loader") == "batch":
                    # independent expectation: one plain loader per registered tomogram (numpy image), count-weighted
                    from acryo import SubtomogramLoader
                    import dask

                    with dask.config.set({"scheduler": Sim(mode="sequential").get}):
                        indep = [(len(m_), np.asarray(SubtomogramLoader(t_, m_, **o.kw).asnumpy(), dtype=np.float64).sum(axis=0)) for t_, m_ in o.parts]
                    tot_ = sum(c for c, _ in indep)
                    exp_ind = sum(a for _, a in indep) / tot_
                    tol_ = _mean_tol(n, stack) * (4 if not w["edge"] else 64) + (1e-5 if w["edge"] else 0.0)
                    if tot_ != n or max_abs_diff(v_s["avg"], exp_ind) > tol_:
                        raise V("not-a-mean", name, f"batch average differs from the count-weighted mean over its tomograms loaded independently (max diff {max_abs_diff(v_s['avg'], exp_ind):.3g}, {n} vs {tot_} molecules)")
                exp = stack.mean(axis=0)
                if max_abs_diff(v_s["avg"], exp) > _mean_tol(n, stack):
                    raise V("not-a-mean", name, "batch average is not the mean of all loaded subtomograms")
                if v_s["parts"] is not None:
                    tot = sum(c for c, _ in v_s["parts"])
                    if tot != n:
                        raise V("not-a-mean", name, f"per-tomogram counts sum to {tot}, loader has {n}")
                    wm = sum(c * np.asarray(a, dtype=np.float64) for c, a in v_s["parts"]) / tot
                    if max_abs_diff(v_s["avg"], wm) > 2 * _mean_tol(n, stack):
                        raise V("not-a-mean", name, "batch average is not the count-weighted mean of the per-tomogram averages")
            elif name in ("average_split", "fsc_halfmaps"):
                if name == "fsc_halfmaps":
                    h0s, h1s = v_s["h0"], v_s["h1"]
                    if op["zero_norm"]:
                        # halves had their common mean subtracted: compare against average_split minus its mean
                        import dask

                        with dask.config.set({"scheduler": Sim(mode="sequential").get}), W.knobs_ctx(sc["knobs"]):
                            raw = o.loader.average_split(n_set=op["n_set"], seed=op["seed"], squeeze=False)
                        exp = raw - raw.mean()
                        got = np.stack([h0s, h1s], axis=1)
                        if max_abs_diff(got, exp) > 4 * _mean_tol(n, stack):
                            raise V("not-a-mean", name, "half maps are not average_split minus its mean")
                        continue
                    arr = np.stack([h0s, h1s], axis=1)
                else:
                    arr = v_s
                if arr.shape[:2] != (op["n_set"], 2):
                    raise V("not-a-mean", name, f"split stack has shape {arr.shape}")
                if n < 2:
                    continue
                for sidx in range(op["n_set"]):
                    site = f"{name}"
                    if w["kind"] == "onehot":
                        m0 = decode_onehot(arr[sidx, 0], o.offsets, site)
                        m1 = decode_onehot(arr[sidx, 1], o.offsets, site)
                    elif n <= int(np.prod(w["box"])):
                        m0 = decode_lstsq(arr[sidx, 0], stack, site)
                        m1 = decode_lstsq(arr[sidx, 1], stack, site)
                    else:
                        continue
                    if m0 is None or m1 is None:
                        continue
                    check_partition(m0, m1, n, site)
                    memberships[(i, sidx)] = (sorted(m0), sorted(m1))
                    k0, k1 = len(m0), len(m1)
                    comb = (k0 * arr[sidx, 0].astype(np.float64) + k1 * arr[sidx, 1].astype(np.float64)) / (k0 + k1)
                    if max_abs_diff(comb, stack.mean(axis=0)) > 4 * _mean_tol(n, stack):
                        raise V("not-a-mean", site, "count-weighted mean of the two half maps is not the full average")
                    # each half is the mean of its members
                    for half, mem in ((arr[sidx, 0], m0), (arr[sidx, 1], m1)):
                        if max_abs_diff(half, stack[sorted(mem)].mean(axis=0)) > 4 * _mean_tol(len(mem), stack):
                            raise V("not-a-mean", site, "half map is not the mean of its members")
            elif name in ("group_average", "group_average_split"):
                feats = o.loader.molecules.features["g"].to_list()
                keys = []
                for g_ in feats:
                    if g_ not in keys:
                        keys.append(g_)
                if list(v_s.keys()) != keys:
                    raise V("group-keys", name, f"keys {list(v_s.keys())} != {keys}")
                for key in keys:
                    idx = [j for j, g_ in enumerate(feats) if g_ == key]
                    sub = _group_stack(o, idx, sc["knobs"])
                    if name == "group_average":
                        if max_abs_diff(v_s[key], sub.mean(axis=0)) > _mean_tol(len(idx), sub):
                            raise V("not-a-mean", name, f"group {key!r}: average is not the mean of its {len(idx)} members' subtomograms")
                    else:
                        arr = v_s[key]
                        if len(idx) < 2:
                            continue
                        for sidx in range(op["n_set"]):
                            if w["kind"] == "onehot":
                                offs = [o.offsets[j] for j in idx]
                                m0 = decode_onehot(arr[sidx, 0], offs, name)
                                m1 = decode_onehot(arr[sidx, 1], offs, name)
                            elif len(idx) <= int(np.prod(w["box"])):
                                m0 = decode_lstsq(arr[sidx, 0], sub, name)
                                m1 = decode_lstsq(arr[sidx, 1], sub, name)
                            else:
                                continue
                            if m0 is None or m1 is None:
                                continue
                            check_partition(m0, m1, len(idx), name)
                            memberships[(i, key, sidx)] = (sorted(m0), sorted(m1))
                            k0, k1 = len(m0), len(m1)
                            comb = (k0 * arr[sidx, 0].astype(np.float64) + k1 * arr[sidx, 1].astype(np.float64)) / (k0 + k1)
                            if max_abs_diff(comb, sub.mean(axis=0)) > 4 * _mean_tol(len(idx), sub):
                                raise V("not-a-mean", name, f"group {key!r}: weighted mean of the halves is not the group average")
        # (5) reproducibility of the split across layouts / knobs: eager numpy twin, default knobs
        if memberships and w["kind"] != "mock":
            twin_sim = Sim(mode="sequential")
            o_t, twin, _ = _run_all(sc, twin_sim, {}, sc["np_seed"] + 1, eager=True)
            import dask

            with dask.config.set({"scheduler": Sim(mode="sequential").get}):
                stack_t = np.asarray(o_t.loader.asnumpy(), dtype=np.float64)
            for key_, (m0, m1) in memberships.items():
                i = key_[0]
                st_t, v_t = twin[i]
                if st_t != "ok":
                    raise V("container-dependent-error", sc["ops"][i]["op"], f"raises on the eager numpy twin: {v_t}")
                name = sc["ops"][i]["op"]
                if name == "fsc_halfmaps":
                    arr = np.stack([v_t["h0"], v_t["h1"]], axis=1)
                    sidx = key_[1]
                    sub_t, offs = stack_t, o_t.offsets
                elif name == "average_split":
                    arr, sidx, sub_t, offs = v_t, key_[1], stack_t, o_t.offsets
                else:
                    gk, sidx = key_[1], key_[2]
                    arr = v_t[gk]
                    feats = o_t.loader.molecules.features["g"].to_list()
                    idx = [j for j, g_ in enumerate(feats) if g_ == gk]
                    sub_t = stack_t[idx]
                    offs = [o_t.offsets[j] for j in idx] if o_t.offsets else None
                if w["kind"] == "onehot":
                    t0 = decode_onehot(arr[sidx, 0], offs, name)
                else:
                    t0 = decode_lstsq(arr[sidx, 0], sub_t, name)
                if t0 is None:
                    continue
                if sorted(t0) != m0:
                    raise V("split-not-reproducible", name, f"same seed gives half {m0} on this layout/knobs but {sorted(t0)} on the eager twin")
    except V as v:
        violation = {"kind": v.kind, "site": v.site, "detail": v.detail[:500]}
    except StopIteration:
        pass
    if violation is None and sim.race is not None:
        r_ = sim.race
        violation = {"kind": "array-modified-while-task-parked", "site": r_["function"],
                     "detail": f"array `{r_['variable']}` (shape {r_['shape']}) held by {r_['function']}() changed while that task was parked at {r_['parked_at']}: another task wrote into it"}
    st = sim.stats
    res = {
        "ok": violation is None, "violation": violation, "notes": notes, "generator_defect": bool(notes),
        "stats": dict(st, sites=len(sim.sites), steps=sim.steps, checked_ops=checked, splits_decoded=len(memberships)),
        "digests": dict(sim.digests()),
        "result_digest": digest([violation["kind"] if violation else "ok", sorted(map(repr, memberships.items()))]),
        "nontrivial": bool(checked > 0 and st["tasks"] > 0),
        "ops": [o_["op"] for o_ in sc["ops"]],
        "world_kind": w["kind"],
    }
    if violation is not None:
        res["trace"] = sim.trace()
    else:
        tr = sim.trace()
        res["trace_head"] = {"preempts": tr["preempts"][:6], "choices": tr["choices"][:8], "n_preempts": len(tr["preempts"]), "n_choices": len(tr["choices"])}
    return res


def to_trace_scenario(sc, outcome):
    sc2 = dict(sc)
    s = dict(sc["schedule"])
    tr = outcome.get("trace") or {}
    s.update(mode="trace", preempts=tr.get("preempts", []), choices=tr.get("choices", []), fault_events=tr.get("fault_events", []))
    s.pop("faults", None)
    sc2["schedule"] = s
    return sc2


def shrink_candidates(sc):
    out = []
    ops = sc["ops"]
    if len(ops) > 1:
        for i in range(len(ops)):
            s2 = dict(sc)
            s2["ops"] = ops[:i] + ops[i + 1:]
            out.append(s2)
    w = sc["world"]
    if any(st["kind"] != "numpy" for st in w["storage"]):
        s2 = dict(sc)
        w2 = dict(w)
        w2["storage"] = [{"kind": "numpy", "chunks": None, "style": "numpy"} for _ in w["storage"]]
        s2["world"] = w2
        out.append(s2)
    if sc["knobs"].get("fuse") is not None:
        s2 = dict(sc)
        s2["knobs"] = dict(sc["knobs"], fuse=None)
        out.append(s2)
    if sc["knobs"].get("chunk_size"):
        s2 = dict(sc)
        s2["knobs"] = dict(sc["knobs"], chunk_size=None)
        out.append(s2)
    for i, op in enumerate(ops):
        if op.get("n_set", 1) > 1:
            s2 = dict(sc)
            ops2 = [dict(o) for o in ops]
            ops2[i]["n_set"] = 1
            s2["ops"] = ops2
            out.append(s2)
    sch = sc["schedule"]
    if sch.get("mode") == "prng" and (sch["workers"] > 1 or sch["preempt_p"] > 0 or sch.get("faults")):
        s2 = dict(sc)
        s2["schedule"] = dict(sch, workers=1, preempt_p=0.0, granularity="task", faults={})
        out.append(s2)
    return out


RULE = ("one evaluation = one world (random-valued / one-hot / mock; single, batch or grouped loader; storage layout; dask chunk-size and fusion knobs) "
        "with 1-3 averaging operations executed under one seeded schedule and compared with a sequential reference under another ambient RNG state, "
        "the float64 mean of the loaded subtomograms, decoded half memberships and the eager twin; non-trivial = at least one operation was "
        "fully checked; distinct = distinct event-log digest")


def sample_view(sc):
    w = sc["world"]
    return {"world": {k: v for k, v in w.items() if k not in ("storage",)}, "storage": [{"kind": s["kind"], "style": s["style"]} for s in w["storage"]],
            "knobs": sc["knobs"], "ops": sc["ops"], "schedule": {k: v for k, v in sc["schedule"].items() if k not in ("preempts", "choices", "fault_events")}}


def evidence_extra(good):
    from collections import Counter

    kinds = Counter(r.get("world_kind") for r in good)
    return {"world_kinds": dict(kinds), "splits_decoded": sum(r.get("stats", {}).get("splits_decoded", 0) for r in good)}

"""C03 - row i of every result belongs to molecule i (history machine over loaders x simulated scheduler).

A run = a seeded *history* of loader operations on a pool of loaders / batches / groups, every
computation executed under the simulated scheduler, checked step by step against a plain-list
reference model (DESIGN 4.2).  Oracles: parallel containers stay aligned, lazy results are attributed
to the right molecule and tomogram (pattern decoding + isolation reference), derived loaders hold
exactly the selected molecules, groups partition, handles are repeatable, nothing else in the pool
changes."""
from __future__ import annotations

import math
import random

import numpy as np

from simkit import world as W
from simkit.compare import digest, max_abs_diff
from simkit.sched import POLICIES, Sim, SimDeadlock, seed_uuid

PROPERTY = "C03"
BUDGET = {"quick": {"runs": 400, "timeout": 150.0}, "thorough": {"runs": 12000, "timeout": 300.0}}
LEVEL = "exploration"
IMAGE_ID = "image-id"


class Violation(Exception):
    def __init__(self, kind, site, detail):
        super().__init__(f"{kind} at {site}: {detail}")
        self.kind, self.site, self.detail = kind, site, detail


# ------------------------------------------------------------------------------------------
# scenario generation
# ------------------------------------------------------------------------------------------
MUTATORS = ["new_single", "new_batch", "new_batch", "add_tomogram", "add_tomogram", "add_tomogram", "add_loader", "add_loader", "from_loaders",
            "copy", "copy", "replace_param", "replace_param",
            "replace_subset", "replace_perm", "replace_sort", "filter", "head", "tail", "sample", "binning",
            "groupby", "group_filter", "group_head", "group_tail", "group_sample"]
OBSERVERS = ["obs_rows", "obs_load", "obs_load", "obs_apply", "obs_score", "obs_align", "obs_landscape",
             "obs_group", "obs_group_apply", "obs_group_average", "obs_group_align", "obs_loaders", "obs_classify_order"]


def gen_schedule(rng):
    gran = rng.choice(["task", "line", "line", "opcode-some"])
    p = 0.0 if gran == "task" else rng.choice([0.0, 0.01, 0.05, 0.2])
    return {"mode": "prng", "seed": rng.randrange(1 << 40), "workers": rng.choice([1, 2, 3, 4, 8]), "granularity": gran,
            "preempt_p": p, "policy": rng.choice(list(POLICIES)), "pct_d": rng.randint(1, 3), "hot_boost": rng.choice([0.0, 0.3]), "faults": rng.choice([{}, {}, {}, {"F10": 0.5}])}


def generate(seed: int, tier: str):
    rng = random.Random(seed)
    kind = rng.choice(["pattern", "pattern", "noise"])
    order = rng.choice([0, 1, 1, 3])
    b = rng.choice([3, 5, 5, 7])
    box = [b, b, b] if rng.random() < 0.5 else [rng.choice([3, 5, 7]) for _ in range(3)]
    n_tomo = rng.randint(2, 4)
    half_diag = math.sqrt(sum(x * x for x in box)) / 2
    margin = 2 * (half_diag + order + 3)  # also safe after binning by 2
    shapes = []
    for _ in range(n_tomo):
        lo = int(math.ceil(2 * margin + 14))
        shapes.append([rng.randint(lo, min(lo + 10, 96)) for _ in range(3)])
    storage = []
    for t in range(n_tomo):
        k = rng.choice(["numpy", "dask", "sim"])
        if k == "numpy":
            storage.append({"kind": k, "chunks": None, "style": "numpy"})
        else:
            ch, st = W.gen_chunks(rng, shapes[t], style=rng.choice(["single", "regular", "irregular"]))
            storage.append({"kind": k, "chunks": ch, "style": st})
    n_steps = rng.randint(4, 10) if tier == "quick" else rng.randint(6, 18)
    steps = []
    for i in range(n_steps):
        if i < 2 or rng.random() < 0.55:
            name = rng.choice(MUTATORS if i >= 2 else ["new_single", "new_batch", "new_batch"])
        else:
            name = rng.choice(OBSERVERS)
        steps.append({"op": name, "r": [rng.random() for _ in range(6)], "i": [rng.randrange(1 << 30) for _ in range(3)]})
    # always end with observations of everything
    steps.append({"op": "obs_all", "r": [rng.random() for _ in range(6)], "i": [rng.randrange(1 << 30) for _ in range(3)]})
    return {
        "property": PROPERTY, "seed": seed,
        "world": {"kind": kind, "order": order, "box": box, "scale": rng.choice([0.5, 1.0, 2.0]), "corner_safe": rng.random() < 0.2,
                  "n_tomo": n_tomo, "shapes": shapes, "storage": storage, "tomo_seed": rng.randrange(1 << 30),
                  "mol_seed": rng.randrange(1 << 30), "rot": rng.choice(["identity", "random", "clustered"])},
        "knobs": W.gen_knobs(rng),
        "steps": steps,
        "schedule": gen_schedule(rng),
        "uuid_seed": rng.randrange(1 << 30), "np_seed": rng.randrange(1 << 30),
    }


# ------------------------------------------------------------------------------------------
# reference model
# ------------------------------------------------------------------------------------------
class LModel:
    """Plain-list model of a loader: which uids, in which order, seen through which binning."""

    def __init__(self, kind, rows, order, scale, box, corner_safe, binf=1, off=0.0, ids=None, images=None):
        self.kind = kind  # single | batch
        self.rows = list(rows)
        self.order, self.scale, self.box, self.corner_safe = order, scale, tuple(box), corner_safe
        self.binf = binf  # cumulative bin factor of the images
        self.off = off  # nm subtracted from the original positions by the binnings so far
        self.ids = list(ids) if ids is not None else None  # batch: image id of every row
        self.images = dict(images) if images is not None else None  # batch: image id -> tomogram index

    def derive(self, rows=None, ids=None, **kw):
        m = LModel(self.kind, self.rows if rows is None else rows, self.order, self.scale, self.box, self.corner_safe,
                   self.binf, self.off, self.ids if ids is None else ids, self.images)
        for k, v in kw.items():
            setattr(m, k, v)
        if m.kind == "batch" and m.images is not None:
            present = set(m.ids)
            m.images = {k: v for k, v in m.images.items() if k in present}
        return m


class GModel:
    """Model of a LoaderGroup.  `loader.groupby(...)` is a *live view*: it re-groups its parent loader every time it is
    iterated, so in-place additions to a BatchLoader show up in it (the property does not promise a snapshot, and
    does not forbid one; the model follows the code here).  Groups derived by filter/head/tail/sample are snapshots."""

    def __init__(self, parent: LModel, groups=None, master=None):
        self.kind = "group"
        self.parent = parent
        self._groups = groups  # list of (key, LModel) for snapshots, None for live views
        self._master = master

    @property
    def groups(self):
        if self._groups is not None:
            return self._groups
        m = self.parent
        keys = []
        for u in m.rows:
            if self._master[u]["g"] not in keys:
                keys.append(self._master[u]["g"])
        out = []
        for k in keys:
            idx = [i for i in range(len(m.rows)) if self._master[m.rows[i]]["g"] == k]
            out.append((k, m.derive(rows=[m.rows[i] for i in idx], ids=[m.ids[i] for i in idx] if m.ids is not None else None)))
        return out


class Ctx:
    pass


def _sep_needed(order):
    tol = {0: 5051.0, 1: 60.0, 3: 400.0}[order]
    return 2 * 2 * tol + 200  # x2 for binning by 2


def _tol(order, binf):
    return {0: 5051.0, 1: 60.0, 3: 400.0}[order] * binf + 1.0


def build_ctx(sc):
    from acryo import Molecules
    from scipy.spatial.transform import Rotation

    w = sc["world"]
    ctx = Ctx()
    ctx.sc, ctx.w = sc, w
    ctx.tomos, ctx.images, ctx.stores = [], [], []
    ctx.master = {}
    ctx.next_uid = 0
    ctx.pool = []  # list of (obj, model)
    ctx.results = []  # (object, digest at creation, what): results returned earlier
    ctx.rg = np.random.default_rng(w["mol_seed"])
    noise_rg = np.random.default_rng(w["tomo_seed"])
    for t in range(w["n_tomo"]):
        shape = tuple(w["shapes"][t])
        if w["kind"] == "pattern":
            arr = W.pattern_tomogram(t + 1, shape)
        else:
            arr = noise_rg.normal(size=shape).astype(np.float32)
        st = w["storage"][t]
        img, store = W.wrap_storage(arr, st["kind"], st["chunks"], name=f"tomo{t}")
        ctx.tomos.append(arr)
        ctx.images.append(img)
        ctx.stores.append(store)
    ctx.template = None
    ctx.Molecules, ctx.Rotation = Molecules, Rotation
    return ctx


def new_molecules(ctx, t, n):
    """n new molecules in tomogram t with fresh uids; interior positions; attribution separation by construction."""
    w = ctx.w
    shape = np.array(w["shapes"][t], dtype=float)
    half_diag = math.sqrt(sum(x * x for x in w["box"])) / 2
    margin = 2 * (half_diag + w["order"] + 3)
    rg = ctx.rg
    sep = _sep_needed(w["order"])
    existing = [W.pattern_value(0, m["pos_px"]) for m in ctx.master.values() if m["t"] == t]
    pos_px = []
    tries = 0
    while len(pos_px) < n and tries < 4000:
        tries += 1
        # positions on the half-integer grid 2k+0.5 are block centres for binning by 2; others are free
        p = rg.uniform(margin, shape - 1 - margin)
        if rg.random() < 0.6:
            p = 2 * np.floor(p / 2) + 0.5
        v = W.pattern_value(0, p)
        if all(abs(v - e) >= sep for e in existing):
            pos_px.append(p)
            existing.append(v)
    n = len(pos_px)
    if n == 0:
        return None, []
    pos_px = np.array(pos_px)
    if w["rot"] == "identity":
        rot = ctx.Rotation.identity(n)
    elif w["rot"] == "clustered":
        base = ctx.Rotation.random(1, random_state=int(rg.integers(1 << 30)))
        ang = np.deg2rad(rg.uniform(0.002, 0.05, size=n))
        axes = rg.normal(size=(n, 3))
        axes /= np.linalg.norm(axes, axis=1, keepdims=True)
        rot = ctx.Rotation.from_rotvec(axes * ang[:, None]) * base[0]
    else:
        rot = ctx.Rotation.random(n, random_state=int(rg.integers(1 << 30)))
    uids = list(range(ctx.next_uid, ctx.next_uid + n))
    ctx.next_uid += n
    vals = rg.normal(size=n)
    gs = np.array([u % 3 for u in uids], dtype=np.int64)
    quat = rot.as_quat()
    for i, u in enumerate(uids):
        ctx.master[u] = {"t": t, "pos_px": pos_px[i].copy(), "pos": pos_px[i] * w["scale"], "quat": quat[i].copy(), "val": float(vals[i]), "g": int(gs[i])}
    mol = ctx.Molecules(pos_px * w["scale"], rot, features={"uid": np.array(uids, dtype=np.int64), "g": gs, "val": vals})
    return mol, uids


# ------------------------------------------------------------------------------------------
# observation helpers
# ------------------------------------------------------------------------------------------
def uids_of(loader):
    return [int(u) for u in loader.molecules.features["uid"].to_list()]


def check_rows(ctx, loader, m: LModel, site):
    """The parallel containers of a loader agree with the model, row by row."""
    mol = loader.molecules
    u = uids_of(loader)
    if u != m.rows:
        raise Violation("wrong-selection", site, f"loader holds uids {u[:12]}..., model expects {m.rows[:12]}... (n={len(u)} vs {len(m.rows)})")
    if mol.pos.shape[0] != len(u) or mol.quaternion().shape[0] != len(u) or mol.features.shape[0] != len(u):
        raise Violation("feature-row-misaligned", site, "positions / orientations / feature rows differ in length")
    pos = np.asarray(mol.pos, dtype=np.float64)
    quat = np.asarray(mol.quaternion(), dtype=np.float64)
    feats = mol.features
    vals = feats["val"].to_list()
    gs = feats["g"].to_list()
    for i, uid in enumerate(u):
        rec = ctx.master[uid]
        if np.abs(pos[i] - (rec["pos"] - m.off)).max() > 1e-3:
            raise Violation("feature-row-misaligned", site, f"row {i} (uid {uid}): position {pos[i]} is not that molecule's ({rec['pos'] - m.off})")
        q = rec["quat"]
        if min(np.abs(quat[i] - q).max(), np.abs(quat[i] + q).max()) > 1e-4:
            raise Violation("feature-row-misaligned", site, f"row {i} (uid {uid}): orientation belongs to another molecule")
        if abs(vals[i] - rec["val"]) > 1e-9 or int(gs[i]) != rec["g"]:
            raise Violation("feature-row-misaligned", site, f"row {i} (uid {uid}): feature values belong to another molecule")
    if m.kind == "batch":
        ids = feats[IMAGE_ID].to_list()
        if ids != m.ids:
            raise Violation("feature-row-misaligned", site, f"image ids {ids[:12]} != model {m.ids[:12]}")
        imgs = loader.images
        if set(imgs.keys()) != set(m.images.keys()):
            raise Violation("wrong-selection", site, f"image registry keys {sorted(map(repr, imgs.keys()))} != model {sorted(map(repr, m.images.keys()))}")
        for i, uid in enumerate(u):
            if m.images[ids[i]] != ctx.master[uid]["t"]:
                raise Violation("row-misattributed", site, f"row {i} (uid {uid}) is tagged with image {ids[i]!r} which holds tomogram {m.images[ids[i]]}, not {ctx.master[uid]['t']}")
    if abs(loader.scale - m.scale) > 1e-9 or loader.order != m.order or tuple(loader.output_shape) != tuple(m.box) or loader.corner_safe != m.corner_safe:
        raise Violation("wrong-selection", site, "loader parameters differ from the model")


def expected_centre(ctx, m: LModel, uid):
    rec = ctx.master[uid]
    return W.pattern_value(rec["t"] + 1, rec["pos_px"]) * (m.binf ** 3)


def check_centres(ctx, m: LModel, values, site, rows=None):
    """Pattern worlds: the centre voxel of subtomogram i decodes to molecule i (and to no other in the pool)."""
    rows = m.rows if rows is None else rows
    if len(values) != len(rows):
        raise Violation("row-misattributed", site, f"{len(values)} results for {len(rows)} molecules")
    tol = _tol(m.order, m.binf) * (m.binf ** 3)
    for i, uid in enumerate(rows):
        exp = expected_centre(ctx, m, uid)
        if abs(values[i] - exp) > tol:
            # which molecule does it look like?
            best = min(ctx.master, key=lambda u2: abs(values[i] - expected_centre(ctx, m, u2)))
            raise Violation("row-misattributed", site, f"row {i} (uid {uid}): centre value {values[i]:.1f} != expected {exp:.1f} (tol {tol:.0f}); nearest molecule is uid {best}")


def centre_of(arr):
    c = tuple((s - 1) // 2 for s in arr.shape[-3:])
    return arr[(...,) + c]


def centre_voxel(img):
    c = tuple((s - 1) // 2 for s in img.shape)
    return float(img[c])


def iso_loader(ctx, m: LModel, uid, mol_row=None):
    """Independent single-molecule loader: the tomogram comes from the model's record (plain numpy, nothing shared
    with the loader under test); the pose is the loader's own row (already validated against the model by check_rows,
    used verbatim so that both computations see bit-identical coordinates)."""
    from acryo import SubtomogramLoader

    rec = ctx.master[uid]
    arr = ctx.tomos[rec["t"]]
    if m.binf > 1:
        b = m.binf
        s = [x - x % b for x in arr.shape]
        arr = arr[: s[0], : s[1], : s[2]].astype(np.float64).reshape(s[0] // b, b, s[1] // b, b, s[2] // b, b).sum(axis=(1, 3, 5)).astype(np.float32)
    if mol_row is not None:
        mol = ctx.Molecules(np.asarray(mol_row.pos).copy(), mol_row.rotator)
    else:
        mol = ctx.Molecules((rec["pos"] - m.off)[None, :], ctx.Rotation.from_quat(rec["quat"][None, :]))
    return SubtomogramLoader(arr, mol, order=m.order, scale=m.scale, output_shape=m.box, corner_safe=m.corner_safe)


def row_of(ld, j):
    """Row j of a loader as the loading code itself sees it.  A BatchLoader loads through per-tomogram sub-loaders
    whose molecules went through one data-frame round trip (orientations stored as float32 rotation vectors), which
    legitimately perturbs the orientation by ~1e-7; the reference reproduces exactly that (elementwise) conversion."""
    row = ld.molecules.subset([int(j)])
    if hasattr(ld, "images"):
        row = type(row).from_dataframe(row.to_dataframe())
    return row


def with_sequential(fn):
    import dask

    s = Sim(mode="sequential")
    with dask.config.set({"scheduler": s.get}):
        return fn()


def close(a, b, m: LModel):
    if m.binf == 1:
        return digest(np.asarray(a)) == digest(np.asarray(b)) or max_abs_diff(a, b) <= 1e-6 * max(1.0, float(np.max(np.abs(b))))
    return max_abs_diff(a, b) <= 2e-5 * max(1.0, float(np.max(np.abs(b))))


# ------------------------------------------------------------------------------------------
# the machine
# ------------------------------------------------------------------------------------------
def pool_digests(ctx):
    out = []
    for obj, m in ctx.pool:
        if isinstance(m, GModel):
            out.append("G")
        elif m.kind == "batch":
            out.append(digest(obj.molecules) + digest(sorted(map(repr, obj.images.keys()))) + repr([id(v) for v in obj.images.values()]))
        else:
            out.append(digest(obj.molecules) + repr(id(obj.image)))
    return out


def pick(ctx, r, pred):
    idx = [i for i, (o, m) in enumerate(ctx.pool) if pred(m)]
    if not idx:
        return None
    # half of the time work on one of the two most recent eligible objects (keeps related objects interacting)
    if r < 0.5 and len(idx) > 2:
        idx = idx[-2:]
        r = r * 2
    return idx[int(r * len(idx)) % len(idx)]


def is_loader(m):
    return isinstance(m, LModel) and len(m.rows) > 0


def is_batch(m):
    return isinstance(m, LModel) and m.kind == "batch"


def is_single(m):
    return isinstance(m, LModel) and m.kind == "single" and len(m.rows) > 0


def is_group(m):
    return isinstance(m, GModel)


def loader_kw(ctx):
    w = ctx.w
    return dict(order=w["order"], scale=w["scale"], output_shape=tuple(w["box"]), corner_safe=w["corner_safe"])


def do_step(ctx, step, log):
    import polars as pl
    from acryo import BatchLoader, SubtomogramLoader

    op, r, ii = step["op"], step["r"], step["i"]
    w = ctx.w
    rg = random.Random(ii[0])
    log.append(op)

    def add(obj, model):
        ctx.pool.append((obj, model))
        if len(ctx.pool) > 10:
            ctx.pool.pop(0)

    if op == "new_single":
        t = int(r[0] * w["n_tomo"]) % w["n_tomo"]
        mol, uids = new_molecules(ctx, t, rg.randint(2, 6))
        if mol is None:
            return "skip"
        ld = SubtomogramLoader(ctx.images[t], mol, **loader_kw(ctx))
        add(ld, LModel("single", uids, w["order"], w["scale"], w["box"], w["corner_safe"]))
        return "ok"
    if op == "new_batch":
        b = BatchLoader(**loader_kw(ctx))
        m = LModel("batch", [], w["order"], w["scale"], w["box"], w["corner_safe"], ids=[], images={})
        for _ in range(rg.randint(2, 3)):
            t = rg.randrange(w["n_tomo"])
            mol, uids = new_molecules(ctx, t, rg.randint(2, 4))
            if mol is None:
                continue
            _batch_add(ctx, b, m, ctx.images[t], mol, uids, t, rg, explicit=rg.random() < 0.25)
        if not m.rows:
            return "skip"
        # molecule order inside a batch: contiguous / interleaved / shuffled (a legal replace(molecules=...))
        mode = rg.choice(["contiguous", "interleaved", "shuffled"])
        if mode != "contiguous":
            n = len(m.rows)
            if mode == "shuffled":
                perm = list(range(n))
                rg.shuffle(perm)
            else:
                rank = {}
                keyed = []
                for i, k in enumerate(m.ids):
                    rank[k] = rank.get(k, -1) + 1
                    keyed.append((rank[k], i))
                perm = [i for _, i in sorted(keyed)]
            b = b.replace(molecules=b.molecules.subset(np.array(perm)))
            m = m.derive(rows=[m.rows[i] for i in perm], ids=[m.ids[i] for i in perm])
        add(b, m)
        return "ok"
    if op in ("add_tomogram", "add_loader"):
        bi = pick(ctx, r[0], is_batch)
        if bi is None:
            return "skip"
        b, m = ctx.pool[bi]
        if m.binf != 1:
            return "skip"
        if rg.random() < 0.5 and len(m.rows):
            obs_load(ctx, b, m, rg, op + ":before")  # the batch may have been used before it grows
        before = pool_digests(ctx)
        if op == "add_tomogram":
            t = rg.randrange(w["n_tomo"])
            mol, uids = new_molecules(ctx, t, rg.randint(1, 3))
            if mol is None:
                return "skip"
            _batch_add(ctx, b, m, ctx.images[t], mol, uids, t, rg, explicit=rg.random() < 0.2)
        else:
            # a molecule (uid) is registered at most once per loader: the model identifies rows by uid
            si = pick(ctx, r[1], lambda x: is_loader(x) and x.binf == 1 and x is not m and not (set(x.rows) & set(m.rows)))
            if si is None:
                return "skip"
            src, sm = ctx.pool[si]
            b.add_loader(src)
            _model_add_loader(ctx, m, sm)
        after = pool_digests(ctx)
        _noninterference(before, after, {bi}, op)
        check_rows(ctx, b, m, op)
        if rg.random() < 0.7:
            obs_load(ctx, b, m, rg, op + ":after")  # ... and is used again right away
        return "ok"
    if op == "from_loaders":
        cands = [i for i, (o, mm) in enumerate(ctx.pool) if is_single(mm) and mm.binf == 1]
        if len(cands) < 1:
            return "skip"
        chosen = []
        for k in range(min(2, len(cands))):
            c_ = cands[int(r[k] * len(cands)) % len(cands)]
            if all(not (set(ctx.pool[c_][1].rows) & set(ctx.pool[o_][1].rows)) for o_ in chosen):
                chosen.append(c_)
        before = pool_digests(ctx)
        b = BatchLoader.from_loaders([ctx.pool[i][0] for i in chosen], **loader_kw(ctx))
        m = LModel("batch", [], w["order"], w["scale"], w["box"], w["corner_safe"], ids=[], images={})
        for i in chosen:
            _model_add_loader(ctx, m, ctx.pool[i][1])
        _noninterference(before, pool_digests(ctx), set(), op)
        add(b, m)
        check_rows(ctx, b, m, op)
        return "ok"

    # ---- derivations from one loader -------------------------------------------------------
    if op in ("copy", "replace_param", "replace_subset", "replace_perm", "replace_sort", "filter", "head", "tail", "sample", "binning", "groupby"):
        li = pick(ctx, r[0], is_loader)
        if li is None:
            return "skip"
        ld, m = ctx.pool[li]
        n = len(m.rows)
        before = pool_digests(ctx)
        if op == "copy":
            new, nm = ld.copy(), m.derive()
        elif op == "replace_param":
            new_order = rg.choice([0, 1, 3])
            if w["kind"] == "pattern" and new_order == 0 and m.order != 0:
                new_order = m.order  # separation was constructed for the original order
            new, nm = ld.replace(order=new_order), m.derive(order=new_order)
        elif op == "replace_subset":
            k = rg.randint(1, n)
            idx = sorted(rg.sample(range(n), k))
            new = ld.replace(molecules=ld.molecules.subset(np.array(idx)))
            nm = m.derive(rows=[m.rows[i] for i in idx], ids=[m.ids[i] for i in idx] if m.ids is not None else None)
        elif op == "replace_perm":
            perm = list(range(n))
            rg.shuffle(perm)
            new = ld.replace(molecules=ld.molecules.subset(np.array(perm)))
            nm = m.derive(rows=[m.rows[i] for i in perm], ids=[m.ids[i] for i in perm] if m.ids is not None else None)
        elif op == "replace_sort":
            desc = rg.random() < 0.5
            new = ld.replace(molecules=ld.molecules.sort("val", descending=desc))
            perm = sorted(range(n), key=lambda i: ctx.master[m.rows[i]]["val"], reverse=desc)
            nm = m.derive(rows=[m.rows[i] for i in perm], ids=[m.ids[i] for i in perm] if m.ids is not None else None)
        elif op == "filter":
            which = rg.choice(["val", "g", "mask", "image"])
            if which == "image" and m.kind != "batch":
                which = "val"
            if which == "image":
                kk = rg.choice(sorted(set(m.ids)))
                neg = rg.random() < 0.5
                new = ld.filter(pl.col(IMAGE_ID) != kk) if neg else ld.filter(pl.col(IMAGE_ID) == kk)
                keep = [i for i in range(n) if (m.ids[i] != kk) == neg]
            elif which == "val":
                thr = rg.uniform(-0.8, 0.8)
                new = ld.filter(pl.col("val") > thr)
                keep = [i for i in range(n) if ctx.master[m.rows[i]]["val"] > thr]
            elif which == "g":
                gk = rg.randrange(3)
                new = ld.filter(pl.col("g") == gk)
                keep = [i for i in range(n) if ctx.master[m.rows[i]]["g"] == gk]
            else:
                mask = [rg.random() < 0.6 for _ in range(n)]
                new = ld.filter(mask)
                keep = [i for i in range(n) if mask[i]]
            nm = m.derive(rows=[m.rows[i] for i in keep], ids=[m.ids[i] for i in keep] if m.ids is not None else None)
        elif op in ("head", "tail"):
            k = rg.randint(0, n + 1)  # 0 (nothing) and n + 1 (more than there is) are legal
            new = ld.head(k) if op == "head" else ld.tail(k)
            keep = list(range(n))[:k] if op == "head" else list(range(n))[max(0, n - k):]
            nm = m.derive(rows=[m.rows[i] for i in keep], ids=[m.ids[i] for i in keep] if m.ids is not None else None)
        elif op == "sample":
            k = rg.randint(1, n)
            sd = rg.randrange(1000)
            new = ld.sample(k, seed=sd)
            again = ld.sample(k, seed=sd)
            got = uids_of(new)
            if uids_of(again) != got:
                raise Violation("handle-not-repeatable", op, "sample(n, seed) twice gives different molecules")
            if len(got) != k or len(set(got)) != k or not set(got) <= set(m.rows):
                raise Violation("wrong-selection", op, f"sample({k}) returned {got} from {m.rows}")
            pos_of = {u: i for i, u in enumerate(m.rows)}
            nm = m.derive(rows=got, ids=[m.ids[pos_of[u]] for u in got] if m.ids is not None else None)
        elif op == "binning":
            if m.binf != 1:
                return "skip"
            comp = rg.random() < 0.5
            new = ld.binning(2, compute=comp)
            nm = m.derive(binf=m.binf * 2, off=m.off + (2 - 1) / 2 * m.scale, scale=m.scale * 2)
        elif op == "groupby":
            g = ld.groupby("g")
            _noninterference(before, pool_digests(ctx), set(), op)
            gm = GModel(m, None, ctx.master)
            add(g, gm)
            check_group(ctx, g, gm, op)
            return "ok"
        _noninterference(before, pool_digests(ctx), set(), op)
        if len(nm.rows) == 0:
            # an empty derived loader is legal; nothing further is derived from it
            if uids_of(new) != []:
                raise Violation("wrong-selection", op, "expected an empty loader")
            return "ok"
        check_rows(ctx, new, nm, op)
        add(new, nm)
        return "ok"

    if op in ("group_filter", "group_head", "group_tail", "group_sample"):
        gi = pick(ctx, r[0], is_group)
        if gi is None:
            return "skip"
        g, gm = ctx.pool[gi]
        before = pool_digests(ctx)
        groups = []
        if op == "group_filter":
            thr = rg.uniform(-0.5, 0.5)
            new = g.filter(pl.col("val") > thr)
            for k, mm in gm.groups:
                keep = [i for i, u in enumerate(mm.rows) if ctx.master[u]["val"] > thr]
                groups.append((k, mm.derive(rows=[mm.rows[i] for i in keep], ids=[mm.ids[i] for i in keep] if mm.ids is not None else None)))
        elif op in ("group_head", "group_tail"):
            k_ = rg.randint(0, 3)
            new = g.head(k_) if op == "group_head" else g.tail(k_)
            for k, mm in gm.groups:
                idx = list(range(len(mm.rows)))
                keep = idx[:k_] if op == "group_head" else idx[max(0, len(idx) - k_):]
                groups.append((k, mm.derive(rows=[mm.rows[i] for i in keep], ids=[mm.ids[i] for i in keep] if mm.ids is not None else None)))
        else:
            if min(len(mm.rows) for _, mm in gm.groups) < 1:
                return "skip"
            k_ = 1
            sd = rg.randrange(1000)
            new = g.sample(k_, seed=sd)
            for (k, mm), (k2, sub) in zip(gm.groups, list(new)):
                got = uids_of(sub)
                if k != k2 or len(got) != k_ or not set(got) <= set(mm.rows):
                    raise Violation("wrong-selection", op, f"group sample: key {k2!r} holds {got}, expected {k_} of {mm.rows}")
                pos_of = {u: i for i, u in enumerate(mm.rows)}
                groups.append((k, mm.derive(rows=got, ids=[mm.ids[pos_of[u]] for u in got] if mm.ids is not None else None)))
        _noninterference(before, pool_digests(ctx), set(), op)
        ngm = GModel(gm.parent, groups)
        check_group(ctx, new, ngm, op)
        add(new, ngm)
        return "ok"

    # ---- observations ----------------------------------------------------------------------
    if op == "obs_all":
        for obj, m in list(ctx.pool):
            if isinstance(m, GModel):
                check_group(ctx, obj, m, "obs_all")
            elif len(m.rows):
                check_rows(ctx, obj, m, "obs_all")
                obs_load(ctx, obj, m, rg, "obs_all")
        return "ok"
    if op in ("obs_group", "obs_group_apply", "obs_group_average", "obs_group_align"):
        gi = pick(ctx, r[0], is_group)
        if gi is None:
            return "skip"
        g, gm = ctx.pool[gi]
        before = pool_digests(ctx)
        if op == "obs_group":
            check_group(ctx, g, gm, op)
        elif op == "obs_group_apply":
            obs_group_apply(ctx, g, gm, rg)
        elif op == "obs_group_average":
            obs_group_average(ctx, g, gm)
        else:
            obs_group_align(ctx, g, gm, rg)
        _noninterference(before, pool_digests(ctx), set(), op)
        return "ok"
    li = pick(ctx, r[0], is_loader)
    if li is None:
        return "skip"
    ld, m = ctx.pool[li]
    before = pool_digests(ctx)
    if op == "obs_rows":
        check_rows(ctx, ld, m, op)
    elif op == "obs_load":
        obs_load(ctx, ld, m, rg, op)
    elif op == "obs_apply":
        obs_apply(ctx, ld, m, rg)
    elif op in ("obs_score", "obs_align", "obs_landscape"):
        if m.binf != 1:
            return "skip"
        obs_model(ctx, ld, m, rg, op)
    elif op == "obs_loaders":
        if m.kind != "batch":
            return "skip"
        obs_loaders(ctx, ld, m)
    elif op == "obs_classify_order":
        if m.binf != 1 or len(m.rows) < 4:
            return "skip"
        obs_classify(ctx, ld, m)
    _noninterference(before, pool_digests(ctx), set(), op)
    return "ok"


def _batch_add(ctx, b, m, image, mol, uids, t, rg, explicit):
    mol_before = digest(mol)
    try:
        _batch_add_inner(ctx, b, m, image, mol, uids, t, rg, explicit)
    finally:
        if digest(mol) != mol_before:
            raise Violation("parent-modified", "add_tomogram", "add_tomogram modified the Molecules object the caller passed in")


def _batch_add_inner(ctx, b, m, image, mol, uids, t, rg, explicit):
    if explicit:
        image_id = rg.choice([rg.randrange(0, 6), 100 + rg.randrange(5) * 10])
        while image_id in m.images:
            image_id += 1
        b.add_tomogram(image, mol, image_id=image_id)
    else:
        image_id = len(m.images)
        while image_id in m.images:
            image_id += 1
        b.add_tomogram(image, mol)
    m.images[image_id] = t
    m.rows += list(uids)
    m.ids += [image_id] * len(uids)


def _model_add_loader(ctx, m, sm):
    """Model of BatchLoader.add_loader: each source tomogram gets the next automatic id."""
    if sm.kind == "single":
        groups = [(None, list(range(len(sm.rows))))]
    else:
        seen = []
        for k in sm.ids:
            if k not in seen:
                seen.append(k)
        groups = [(k, [i for i, kk in enumerate(sm.ids) if kk == k]) for k in seen]
    for k, idx in groups:
        image_id = len(m.images)
        while image_id in m.images:
            image_id += 1
        # tomogram index of this source image
        m.images[image_id] = sm.images[k] if sm.kind == "batch" else ctx.master[sm.rows[0]]["t"]
        m.rows += [sm.rows[i] for i in idx]
        m.ids += [image_id] * len(idx)


def track_result(ctx, obj, what):
    """Results handed to the user (aligned loaders) must not change later on, whatever else is computed afterwards."""
    ctx.results.append((obj, digest(obj.molecules), what))
    if len(ctx.results) > 8:
        ctx.results.pop(0)


def check_results_unchanged(ctx, op):
    for obj, d0, what in ctx.results:
        if digest(obj.molecules) != d0:
            raise Violation("result-modified-later", what, f"the molecules returned earlier by {what} changed while {op} was executed")


def _noninterference(before, after, allowed, op):
    for i, (a, b) in enumerate(zip(before, after)):
        if i in allowed:
            continue
        if a != b:
            raise Violation("parent-modified", op, f"pool object #{i} changed although it was not the receiver of {op}")


def check_group(ctx, g, gm: GModel, site):
    first = [(k, uids_of(l)) for k, l in g]
    second = [(k, uids_of(l)) for k, l in g]
    if first != second:
        raise Violation("handle-not-repeatable", site, f"iterating the group twice gives {[(k, len(u)) for k, u in first]} then {[(k, len(u)) for k, u in second]}")
    exp = [(k, mm.rows) for k, mm in gm.groups]
    if [(k, u) for k, u in first] != exp:
        raise Violation("partition-broken", site, f"group members {first} != model {exp}")
    cnt = g.count()
    if dict(cnt) != {k: len(mm.rows) for k, mm in gm.groups}:
        raise Violation("partition-broken", site, f"count() = {dict(cnt)} but model says {[(k, len(mm.rows)) for k, mm in gm.groups]}")
    for (k, l), (_, mm) in zip(list(g), gm.groups):
        if len(mm.rows):
            check_rows(ctx, l, mm, site + ":member")


def obs_load(ctx, ld, m, rg, site):
    n = len(m.rows)
    how = rg.choice(["asnumpy", "load_int", "load_slice", "load_list", "load_iter", "construct_dask"])
    idxs = list(range(n))
    if how == "asnumpy":
        arr = ld.asnumpy()
    elif how == "load_int":
        idxs = [rg.randrange(n)]
        arr = ld.load(idxs[0])[None]
    elif how == "load_slice":
        a = rg.randrange(n)
        b_ = min(n, a + rg.randint(1, 3))
        idxs = list(range(a, b_))
        arr = ld.load(slice(a, b_))
    elif how == "load_list":
        idxs = [rg.randrange(n) for _ in range(rg.randint(1, 3))]
        arr = ld.load(idxs)
    elif how == "load_iter":
        arr = np.stack(list(ld.load_iter()), axis=0)
    else:
        da_ = ld.construct_dask()
        arr = da_.compute()
    rows = [m.rows[i] for i in idxs]
    arr = np.asarray(arr)
    if arr.ndim != 4 or tuple(arr.shape[1:]) != tuple(m.box):
        raise Violation("row-misattributed", site + ":" + how, f"result of shape {arr.shape} for {len(rows)} molecules with box {m.box}")
    if how == "construct_dask":
        if tuple(da_.shape) != tuple(arr.shape):
            raise Violation("row-misattributed", site, f"construct_dask declared {da_.shape}, computed {arr.shape}")
    if arr.shape[0] != len(rows):
        raise Violation("row-misattributed", site + ":" + how, f"{arr.shape[0]} subtomograms for {len(rows)} molecules")
    if ctx.w["kind"] == "pattern":
        check_centres(ctx, m, [float(x) for x in centre_of(arr)], site + ":" + how, rows)
    # isolation reference for up to 3 rows
    for j in sorted(rg.sample(range(len(rows)), min(3, len(rows)))):
        ref = with_sequential(lambda: iso_loader(ctx, m, rows[j], row_of(ld, idxs[j])).load(0))
        if not close(arr[j], ref, m):
            raise Violation("row-misattributed", site + ":" + how, f"row {j} (uid {rows[j]}) differs from that molecule loaded alone (max diff {max_abs_diff(arr[j], ref):.4g})")


def obs_apply(ctx, ld, m, rg):
    nf = rg.randint(1, 2)
    funcs = [centre_voxel, img_sum][:nf]
    df = ld.apply(funcs)
    if df.shape != (len(m.rows), nf):
        raise Violation("row-misattributed", "apply", f"apply returned shape {df.shape} for {len(m.rows)} molecules x {nf} functions")
    vals = df["centre_voxel"].to_list()
    if ctx.w["kind"] == "pattern":
        check_centres(ctx, m, vals, "apply")
    for j in sorted(rg.sample(range(len(m.rows)), min(2, len(m.rows)))):
        ref = with_sequential(lambda: iso_loader(ctx, m, m.rows[j], row_of(ld, j)).apply(funcs))
        if abs(vals[j] - ref["centre_voxel"][0]) > 2e-5 * max(1.0, abs(ref["centre_voxel"][0])):
            raise Violation("row-misattributed", "apply", f"row {j} (uid {m.rows[j]}): apply value {vals[j]} != {ref['centre_voxel'][0]} computed for that molecule alone")


def img_sum(img):
    return float(np.sum(img))


def _template(ctx):
    if ctx.template is None:
        from scipy import ndimage as ndi

        rg = np.random.default_rng(ctx.w["tomo_seed"] + 99)
        ctx.template = (ndi.gaussian_filter(rg.normal(size=ctx.w["box"]), 0.8) * 10).astype(np.float32)
        ctx.template2 = (ndi.gaussian_filter(rg.normal(size=ctx.w["box"]), 0.8) * 10).astype(np.float32)
    return ctx.template


def obs_model(ctx, ld, m, rg, op):
    from acryo.alignment import NCCAlignment, PCCAlignment, ZNCCAlignment

    tmpl = _template(ctx)
    Model = rg.choice([ZNCCAlignment, NCCAlignment, PCCAlignment])
    kw = {}
    if rg.random() < 0.4:
        kw["tilt"] = (-60, 60)
    if rg.random() < 0.3:
        kw["cutoff"] = 0.4
    ms = (1.0 * m.scale,) * 3
    rows = m.rows
    picks = sorted(rg.sample(range(len(rows)), min(3, len(rows))))
    if op == "obs_score":
        out = ld.score([tmpl, ctx.template2], alignment_model=Model, **kw)
        if len(out) != 2 or any(len(o) != len(rows) for o in out):
            raise Violation("row-misattributed", "score", f"score returned lengths {[len(o) for o in out]} for {len(rows)} molecules")
        for j in picks:
            ref = with_sequential(lambda: iso_loader(ctx, m, rows[j], row_of(ld, j)).score([tmpl, ctx.template2], alignment_model=Model, **kw))
            for a, b in zip(out, ref):
                if not (a[j] == b[0] or abs(a[j] - b[0]) <= 1e-6 * max(1.0, abs(float(b[0])))):
                    raise Violation("row-misattributed", "score", f"row {j} (uid {rows[j]}): score {a[j]} != {b[0]} for that molecule alone")
    elif op == "obs_align":
        if rg.random() < 0.3:
            kw["rotations"] = ((10, 10), (0, 0), (0, 0))
        multi = rg.random() < 0.3
        if multi:
            res = ld.align_multi_templates([tmpl, ctx.template2], max_shifts=ms, alignment_model=Model, **kw)
        else:
            res = ld.align(tmpl, max_shifts=ms, alignment_model=Model, **kw)
        if uids_of(res) != rows:
            raise Violation("row-misattributed", "align", "aligned loader lists other molecules than its source")
        track_result(ctx, res, "align")
        pos = np.asarray(res.molecules.pos)
        feats = res.molecules.features
        for j in picks:
            iso = iso_loader(ctx, m, rows[j], row_of(ld, j))
            if multi:
                ref = with_sequential(lambda: iso.align_multi_templates([tmpl, ctx.template2], max_shifts=ms, alignment_model=Model, **kw))
            else:
                ref = with_sequential(lambda: iso.align(tmpl, max_shifts=ms, alignment_model=Model, **kw))
            rp = np.asarray(ref.molecules.pos)[0]
            if np.abs(pos[j] - rp).max() > 1e-4:
                raise Violation("row-misattributed", "align", f"row {j} (uid {rows[j]}): aligned position {pos[j]} != {rp} obtained for that molecule alone")
            for col in ("score", "align-dz", "align-dy", "align-dx"):
                if abs(feats[col][j] - ref.molecules.features[col][0]) > 1e-5:
                    raise Violation("row-misattributed", "align", f"row {j} (uid {rows[j]}): feature {col} = {feats[col][j]} != {ref.molecules.features[col][0]} for that molecule alone")
        # the untouched features still belong to their rows
        if feats["val"].to_list() != [ctx.master[u]["val"] for u in rows]:
            raise Violation("feature-row-misaligned", "align", "feature rows were reordered by align")
    else:
        arr = ld.construct_landscape(tmpl, max_shifts=ms, alignment_model=Model, **kw)
        val = arr.compute()
        if val.shape[0] != len(rows):
            raise Violation("row-misattributed", "landscape", f"{val.shape[0]} landscapes for {len(rows)} molecules")
        for j in picks:
            ref = with_sequential(lambda: iso_loader(ctx, m, rows[j], row_of(ld, j)).construct_landscape(tmpl, max_shifts=ms, alignment_model=Model, **kw).compute())
            if max_abs_diff(val[j], ref[0]) > 1e-6:
                raise Violation("row-misattributed", "landscape", f"row {j} (uid {rows[j]}): landscape differs from that molecule's own")


def obs_loaders(ctx, b, m):
    subs = list(b.loaders)
    keys = []
    for k in m.ids:
        if k not in keys:
            keys.append(k)
    if len(subs) != len(keys) or len(b.loaders) != len(m.images):
        raise Violation("partition-broken", "loaders", f"{len(subs)} sub-loaders / len {len(b.loaders)} for image ids {keys}")
    for k, sub in zip(keys, subs):
        exp = [u for u, kk in zip(m.rows, m.ids) if kk == k]
        if uids_of(sub) != exp:
            raise Violation("partition-broken", "loaders", f"sub-loader of image {k!r} holds {uids_of(sub)}, expected {exp}")
        if sub.image is not b.images[k]:
            raise Violation("row-misattributed", "loaders", f"sub-loader of image {k!r} carries another image")
        byidx = b.loaders[k]
        if uids_of(byidx) != exp:
            raise Violation("partition-broken", "loaders[k]", f"loaders[{k!r}] holds {uids_of(byidx)}, expected {exp}")
        mm = LModel("single", exp, m.order, m.scale, m.box, m.corner_safe, m.binf, m.off)
        if ctx.w["kind"] == "pattern":
            check_centres(ctx, mm, [float(x) for x in centre_of(sub.asnumpy())], "loaders:asnumpy")


def obs_classify(ctx, ld, m):
    res = ld.classify(template=_template(ctx), n_components=2, n_clusters=2, seed=0, label_name="cls")
    new = res.loader
    if uids_of(new) != m.rows:
        raise Violation("row-misattributed", "classify", "classified loader lists other molecules than its source")
    feats = new.molecules.features
    if "cls" not in feats.columns or feats["cls"].len() != len(m.rows):
        raise Violation("row-misattributed", "classify", "label column missing or of wrong length")
    if feats["val"].to_list() != [ctx.master[u]["val"] for u in m.rows]:
        raise Violation("feature-row-misaligned", "classify", "feature rows were reordered by classify")
    if np.abs(np.asarray(new.molecules.pos) - np.asarray(ld.molecules.pos)).max() > 0:
        raise Violation("feature-row-misaligned", "classify", "classify changed positions")
    # the difference stack is in molecule order: row j equals the masked difference of that molecule alone
    stack = np.asarray(res.classifier._image.compute())
    j = len(m.rows) // 2
    iso = iso_loader(ctx, m, m.rows[j], row_of(ld, j))
    ref = with_sequential(lambda: _masked_diff_alone(ctx, iso))
    if max_abs_diff(stack[j], ref) > 1e-5 * max(1.0, float(np.abs(ref).max())):
        raise Violation("row-misattributed", "classify", f"row {j} (uid {m.rows[j]}) of the classification stack is not that molecule's difference map")


def _masked_diff_alone(ctx, iso):
    from acryo.alignment import ZNCCAlignment

    model = ZNCCAlignment(_template(ctx), None, cutoff=0.5, tilt=None)
    img = iso.load(0)
    return np.asarray(model.masked_difference(img, iso.molecules.quaternion()[0]))


def obs_group_apply(ctx, g, gm, rg):
    nf = rg.randint(1, 2)
    funcs = [centre_voxel, img_sum][:nf]
    out = g.apply(funcs)
    if list(out.keys()) != [k for k, _ in gm.groups]:
        raise Violation("partition-broken", "group.apply", f"keys {list(out.keys())} != {[k for k, _ in gm.groups]}")
    for k, mm in gm.groups:
        df = out[k]
        if df.shape != (len(mm.rows), nf):
            raise Violation("row-misattributed", "group.apply", f"group {k!r}: frame of shape {df.shape} for {len(mm.rows)} molecules x {nf} functions")
        if ctx.w["kind"] == "pattern" and len(mm.rows):
            check_centres(ctx, mm, df["centre_voxel"].to_list(), "group.apply")


def obs_group_average(ctx, g, gm):
    if any(len(mm.rows) == 0 for _, mm in gm.groups):
        return
    out = g.average()
    if list(out.keys()) != [k for k, _ in gm.groups]:
        raise Violation("partition-broken", "group.average", f"keys {list(out.keys())} != {[k for k, _ in gm.groups]}")
    for k, mm in gm.groups:
        if ctx.w["kind"] == "pattern":
            exp = float(np.mean([expected_centre(ctx, mm, u) for u in mm.rows]))
            got = float(centre_of(out[k]))
            if abs(got - exp) > _tol(mm.order, mm.binf) * (mm.binf ** 3):
                raise Violation("row-misattributed", "group.average", f"group {k!r}: centre of the average {got:.1f} is not the mean over its members ({exp:.1f})")


def obs_group_align(ctx, g, gm, rg):
    from acryo.alignment import ZNCCAlignment

    if any(len(mm.rows) == 0 or mm.binf != 1 for _, mm in gm.groups):
        return
    tmpl = _template(ctx)
    ms = tuple([1.0 * gm.groups[0][1].scale] * 3)
    out = list(g.align(tmpl, max_shifts=ms, alignment_model=ZNCCAlignment))
    if [k for k, _ in out] != [k for k, _ in gm.groups]:
        raise Violation("partition-broken", "group.align", "keys changed")
    for (k, res), (_, mm) in zip(out, gm.groups):
        if uids_of(res) != mm.rows:
            raise Violation("row-misattributed", "group.align", f"group {k!r}: aligned loader lists other molecules")
        track_result(ctx, res, "group.align")
        j = rg.randrange(len(mm.rows))
        src = dict(list(g))[k]
        iso = iso_loader(ctx, mm, mm.rows[j], row_of(src, j))
        ref = with_sequential(lambda: iso.align(tmpl, max_shifts=ms, alignment_model=ZNCCAlignment))
        if np.abs(np.asarray(res.molecules.pos)[j] - np.asarray(ref.molecules.pos)[0]).max() > 1e-4:
            raise Violation("row-misattributed", "group.align", f"group {k!r} row {j} (uid {mm.rows[j]}): aligned position is not that molecule's own")


# ------------------------------------------------------------------------------------------
def execute(sc):
    import dask

    W.reset_world(sc["np_seed"])
    seed_uuid(sc["uuid_seed"])
    s = dict(sc["schedule"])
    mode = s.pop("mode", "prng")
    sim = Sim(seed=s.get("seed", 0), mode=mode, workers=s.get("workers", 4), granularity=s.get("granularity", "line"),
              preempt_p=s.get("preempt_p", 0.0), policy=s.get("policy", "uniform"), pct_d=s.get("pct_d", 2), hot_boost=s.get("hot_boost", 0.0),
              preempts=s.get("preempts"), choices=s.get("choices"), faults=s.get("faults"), fault_events=s.get("fault_events"),
              hooks={"caches": W.find_caches()})
    ctx = build_ctx(sc)
    log = []
    violation = None
    done = skipped = 0
    step_i = -1
    try:
        with W.knobs_ctx(sc["knobs"]), dask.config.set({"scheduler": sim.get}):
            for step_i, step in enumerate(sc["steps"]):
                st = do_step(ctx, step, log)
                check_results_unchanged(ctx, step["op"])
                if st == "ok":
                    done += 1
                else:
                    skipped += 1
    except Violation as v:
        violation = {"kind": v.kind, "site": v.site.split(":")[0], "detail": f"step {step_i} {sc['steps'][step_i]['op']}: {v.detail}"[:600], "step": step_i}
    except SimDeadlock as e:
        violation = {"kind": "deadlock", "site": "scheduler", "detail": str(e), "step": step_i}
    except Exception as e:  # noqa
        import traceback

        tb = traceback.extract_tb(e.__traceback__)
        inner = [f for f in tb if "/acryo/" in f.filename]
        site = (inner[-1].filename.split("/acryo/")[-1] + ":" + inner[-1].name) if inner else "harness"
        if not inner:
            raise
        violation = {"kind": "spurious-exception", "site": site,
                     "detail": f"step {step_i} {sc['steps'][step_i]['op']}: {type(e).__name__}: {str(e)[:300]}", "step": step_i}
    if violation is None and sim.race is not None:
        r_ = sim.race
        violation = {"kind": "array-modified-while-task-parked", "site": r_["function"],
                     "detail": f"array `{r_['variable']}` (shape {r_['shape']}) held by {r_['function']}() changed while that task was parked at {r_['parked_at']}: another task wrote into it"}
    st = sim.stats
    kinds = sorted({type(m).__name__ + ":" + getattr(m, "kind", "") for _, m in ctx.pool})
    res = {
        "ok": violation is None, "violation": violation,
        "stats": dict(st, sites=len(sim.sites), steps=sim.steps, history_steps=done, history_skipped=skipped, pool=len(ctx.pool), molecules=len(ctx.master)),
        "digests": dict(sim.digests(), history=digest(log)),
        "result_digest": digest([violation["kind"] if violation else "ok", log[: (step_i + 1)]]),
        "nontrivial": bool(done >= 3 and (st["tasks"] > 0)),
        "ops": log,
        "pool_kinds": kinds,
    }
    if violation is not None:
        res["trace"] = sim.trace()
    else:
        tr = sim.trace()
        res["trace_head"] = {"preempts": tr["preempts"][:6], "choices": tr["choices"][:8], "n_preempts": len(tr["preempts"]), "n_choices": len(tr["choices"])}
    return res


def to_trace_scenario(sc, outcome):
    sc2 = dict(sc)
    s = dict(sc["schedule"])
    tr = outcome.get("trace") or {}
    s.update(mode="trace", preempts=tr.get("preempts", []), choices=tr.get("choices", []), fault_events=tr.get("fault_events", []))
    s.pop("faults", None)
    sc2["schedule"] = s
    return sc2


def shrink_candidates(sc):
    out = []
    steps = sc["steps"]
    # drop one step (never the first: the history needs a loader)
    for i in range(len(steps) - 1, 0, -1):
        s2 = dict(sc)
        s2["steps"] = steps[:i] + steps[i + 1:]
        out.append(s2)
    w = sc["world"]
    if any(st["kind"] != "numpy" for st in w["storage"]):
        s2 = dict(sc)
        w2 = dict(w)
        w2["storage"] = [{"kind": "numpy", "chunks": None, "style": "numpy"} for _ in w["storage"]]
        s2["world"] = w2
        out.append(s2)
    if sc["knobs"].get("chunk_size") or sc["knobs"].get("fuse") is not None:
        s2 = dict(sc)
        s2["knobs"] = {"chunk_size": None, "fuse": None}
        out.append(s2)
    if w["rot"] != "identity":
        s2 = dict(sc)
        s2["world"] = dict(w, rot="identity")
        out.append(s2)
    sch = sc["schedule"]
    if sch.get("mode") == "prng" and (sch["workers"] > 1 or sch["preempt_p"] > 0):
        s2 = dict(sc)
        s2["schedule"] = dict(sch, workers=1, preempt_p=0.0, granularity="task")
        out.append(s2)
    return out


RULE = ("one evaluation = one seeded history of 5-11 loader operations (constructors, in-place adds, derivations, groupings, observations) on a pool of "
        "single/batch/group loaders over 2-4 tomograms, all computations under one seeded schedule; non-trivial = at least 3 history steps executed "
        "and at least one dask task run; distinct = distinct digest of (event log) among non-trivial runs")


def sample_view(sc):
    w = sc["world"]
    return {"world": {k: w[k] for k in ("kind", "order", "box", "scale", "corner_safe", "n_tomo", "shapes", "rot")},
            "storage": [{"kind": s["kind"], "style": s["style"]} for s in w["storage"]], "knobs": sc["knobs"],
            "steps": [s["op"] for s in sc["steps"]], "schedule": {k: v for k, v in sc["schedule"].items() if k not in ("preempts", "choices", "fault_events")}}


def evidence_extra(good):
    from collections import Counter

    ops = Counter()
    kinds = Counter()
    for r in good:
        for o in r.get("ops") or []:
            ops[o] += 1
        for k in r.get("pool_kinds") or []:
            kinds[k] += 1
    return {"history_operation_mix": dict(ops), "pool_kinds_at_end": dict(kinds)}

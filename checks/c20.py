"""C20 - particle picking finds the planted particles regardless of chunking.

A run = an image with 3-8 planted, well separated particles (smooth compact blobs for LoG / DoG, rotated
copies of an asymmetric template for ZNCC template matching), one picker, and several layouts of the same image
(numpy, single-chunk dask, regular / irregular / tiny chunks, memmap-like storage, chunk faces through
particles), each picked under a seeded schedule.  Oracle: the planted list (DESIGN 4.6)."""
from __future__ import annotations

import random

import numpy as np

from simkit import world as W
from simkit.compare import digest
from simkit.sched import POLICIES, Sim, SimDeadlock, seed_uuid

PROPERTY = "C20"
BUDGET = {"quick": {"runs": 240, "timeout": 200.0}, "thorough": {"runs": 8000, "timeout": 400.0}}
LEVEL = "exploration"


class V(Exception):
    def __init__(self, kind, site, detail, layout=None):
        super().__init__(detail)
        self.kind, self.site, self.detail, self.layout = kind, site, detail, layout


def gen_schedule(rng):
    gran = rng.choice(["task", "task", "line"])
    p = 0.0 if gran == "task" else rng.choice([0.01, 0.05])
    return {"mode": "prng", "seed": rng.randrange(1 << 40), "workers": rng.choice([1, 2, 4, 8]), "granularity": gran,
            "preempt_p": p, "policy": rng.choice(list(POLICIES)), "pct_d": rng.randint(1, 3), "hot_boost": 0.0,
            "faults": rng.choice([{}, {}, {}, {"F7": 0.1}, {"F10": 0.5}, {"F7": 0.1, "F10": 0.3}])}


def generate(seed: int, tier: str):
    rng = random.Random(seed)
    picker = rng.choice(["log", "log", "dog", "dog", "zncc"])
    scale = rng.choice([0.5, 1.0, 2.0])
    if picker == "zncc":
        shape = [rng.randint(40, 56) for _ in range(3)]
        tb = rng.choice([7, 8, 9])
        # non-cubic templates: the first axis may be shorter or longer than the (square) other two
        tz = rng.choice([tb, tb, tb - 2, tb + 4, 5])
        R = max(tb, tz)  # exclusion / spacing unit
        n = rng.randint(2, 5)
        min_sep = 2.2 * max(tb, tz)
        margin = max(tb, tz) + 2
    else:
        shape = [rng.randint(36, 60) for _ in range(3)]
        R = rng.choice([3.0, 4.0])
        n = rng.randint(3, 8)
        min_sep = 4 * R + 6
        margin = int(2 * R + 3)
        tb = None
        tz = None
        thin = rng.random() < 0.2
        if thin:
            # one axis thinner than the nominal overlap depth (which is then clamped on that axis only)
            R = 3.0
            shape[rng.randrange(3)] = rng.randint(12, 15)
            n = rng.randint(2, 4)
    layouts = [{"kind": "numpy", "chunks": None, "style": "numpy"}]
    for _ in range(rng.randint(2, 3) if tier == "quick" else rng.randint(3, 5)):
        kind = rng.choice(["dask", "dask", "sim"])
        style = rng.choice(["single", "regular", "regular", "irregular", "tiny", "halves"])
        if style == "halves":
            ch = [[s // 2, s - s // 2] for s in shape]
        elif style == "tiny":
            # chunks thinner than the overlap depth along one axis (more would only multiply the task count)
            ax = rng.randrange(3)
            ch = [list(W._regular(s, rng.randint(3, 6))) if i == ax else ([s] if rng.random() < 0.5 else [s // 2, s - s // 2]) for i, s in enumerate(shape)]
        else:
            ch, style = W.gen_chunks(rng, shape, style=style)
        layouts.append({"kind": kind, "chunks": ch, "style": style})
    thin = bool(picker != "zncc" and min(shape) < 20)
    return {"property": PROPERTY, "seed": seed, "thin": thin, "picker": picker, "shape": shape, "scale": scale, "R": R, "n": n, "min_sep": min_sep, "margin": margin, "tb": tb, "tz": tz,
            "dtype": rng.choice(["float32", "float32", "float64", "int16", "uint8", "bool"]) if picker != "zncc" else rng.choice(["float32", "float64", "uint16", "float32"]),
            # detector counts: a background level far above the contrast (all pickers are offset invariant on paper)
            # (template matching only: LoG/DoG threshold at exactly 0, so on a non-zero background float rounding noise of the
            #  filter becomes "maxima"; the property speaks of an image containing particles, not of background invariance)
            "offset": rng.choice([0.0, 0.0, 30.0, 300.0]) if picker == "zncc" else 0.0,
            "frac": rng.random() < 0.5, "cut": rng.random() < 0.5, "data_seed": rng.randrange(1 << 30), "noise": 0.0,
            "sig_ratio": rng.choice([1.5, 1.6, 2.0]), "rot_set": rng.choice(["none", "z90", "z90"]), "min_score": 0.7,
            # exclusion radius of the template matcher: a couple of pixels (the overlap then has no slack) or most of the template
            "min_dist_px": rng.choice([2.0, None]),
            "layouts": layouts, "knobs": W.gen_knobs(rng), "schedule": gen_schedule(rng),
            "uuid_seed": rng.randrange(1 << 30), "np_seed": rng.randrange(1 << 30)}


def hann(shape, c, R, amp=1.0):
    zz, yy, xx = np.indices(shape, dtype=np.float64)
    r = np.sqrt((zz - c[0]) ** 2 + (yy - c[1]) ** 2 + (xx - c[2]) ** 2)
    return amp * 0.5 * (1 + np.cos(np.pi * np.minimum(r, R) / R)) * (r < R)


def make_template(tb, seed, tz=None, lump=False):
    """Asymmetric compact template: three blobs of different size on an L (in the plane of the last two axes).
    lump=True: one ellipsoidal blob filling the box (unimodal autocorrelation: no secondary correlation maxima, so a small
    exclusion radius is within the preconditions)."""
    tz = tz or tb
    if lump:
        zz, yy, xx = np.indices((tz, tb, tb), dtype=np.float64)
        r = np.sqrt(((zz - (tz - 1) / 2) / (tz / 2)) ** 2 + ((yy - (tb - 1) / 2) / (tb / 2)) ** 2 + ((xx - (tb - 1) / 2) / (tb / 2 * 0.7)) ** 2)
        return (0.5 * (1 + np.cos(np.pi * np.minimum(r, 1.0))) * (r < 1.0)).astype(np.float32)
    c = (tb - 1) / 2
    cz = (tz - 1) / 2
    shp = (tz, tb, tb)
    t = hann(shp, (cz, c, c), 2.6, 1.0) + hann(shp, (cz, c - 2.0, c + 2.2), 1.9, 0.9) + hann(shp, (cz, c + 2.4, c), 1.6, 0.7)
    return t.astype(np.float32)


def build_image(sc):
    rg = np.random.default_rng(sc["data_seed"])
    shape = tuple(sc["shape"])
    margin, min_sep = sc["margin"], sc["min_sep"]
    pts = []
    tries = 0
    # when 'cut' is set, prefer positions on the faces of the first chunked layout
    faces = None
    if sc["cut"] and len(sc["layouts"]) > 1:
        faces = [np.cumsum(c)[:-1] for c in sc["layouts"][1]["chunks"]]
    lo = np.full(3, float(margin))
    hi = np.array(shape) - 1.0 - margin
    for ax in range(3):
        if hi[ax] < lo[ax]:  # thin axis: keep the particle inside, centred
            lo[ax], hi[ax] = shape[ax] / 2 - 1.0, shape[ax] / 2
    while len(pts) < sc["n"] and tries < 5000:
        tries += 1
        p = rg.uniform(lo, hi)
        if faces is not None and rg.random() < 0.6:
            ax = int(rg.integers(0, 3))
            cand = [f for f in faces[ax] if margin <= f <= shape[ax] - 1 - margin]
            if cand:
                p[ax] = float(rg.choice(cand)) - rg.choice([0.0, 0.5, 1.0])
        if not sc["frac"] or sc["picker"] == "zncc":
            p = np.round(p)
        if all(np.linalg.norm(p - q) > min_sep for q in pts):
            pts.append(p)
    img = np.zeros(shape, dtype=np.float64)
    rots = []
    if sc["picker"] == "zncc":
        tmpl = make_template(sc["tb"], sc["data_seed"], sc.get("tz"), lump=bool(sc.get("min_dist_px")))
        ts = np.array(tmpl.shape)
        kept = []
        for p in pts:
            k = int(rg.integers(0, 4)) if (sc["rot_set"] == "z90" and not sc.get("min_dist_px")) else 0
            t = np.rot90(tmpl, k=k, axes=(1, 2))
            z0 = np.round(p - (ts - 1) / 2 + np.where(ts % 2 == 0, 0.5, 0.0) - np.where(ts % 2 == 0, 0.5, 0.0)).astype(int)
            if (z0 < 0).any() or (z0 + ts > np.array(shape)).any():
                continue
            img[z0[0]:z0[0] + ts[0], z0[1]:z0[1] + ts[1], z0[2]:z0[2] + ts[2]] += t
            kept.append(z0 + (ts - 1) / 2)
            rots.append(k)
        pts = kept
    else:
        tmpl = None
        for p in pts:
            img += hann(shape, p, sc["R"], amp=float(rg.uniform(0.6, 1.5)))
    dt = np.dtype(sc["dtype"])
    off = float(sc.get("offset", 0.0))
    if dt.kind == "b":
        img = img > 0.35  # binary balls
    elif dt.kind in "iu":
        gain = 100.0
        if dt == np.uint8:
            off = min(off, 0.3)  # 8 bits: keep the particle inside the range
        img = np.round((img + off) * gain).astype(dt)
    else:
        img = (img + off).astype(dt)
    return img, np.array(pts, dtype=np.float64).reshape(-1, 3), rots, tmpl


def make_picker(sc, tmpl):
    from acryo import pick
    from scipy.spatial.transform import Rotation

    s = sc["scale"]
    k = 2.0 if sc.get("thin") else 1.0  # a wider filter on thin images so that the nominal depth exceeds the thin axis
    if sc["picker"] == "log":
        return pick.LoGPicker(sc["R"] / 2 * k * s), {}
    if sc["picker"] == "dog":
        return pick.DoGPicker(sc["R"] / 2 * k * s, sc["R"] / 2 * k * sc["sig_ratio"] * s), {}
    if sc["rot_set"] == "z90" and not sc.get("min_dist_px"):
        # acryo's axis order is (z, y, x); a rotation about the first array axis
        rot = [Rotation.from_rotvec([np.deg2rad(a), 0, 0]) for a in (0, 90, 180, 270)]
    else:
        rot = None
    return pick.ZNCCTemplateMatcher(tmpl, rotation=rot, order=1), {"min_distance": (sc.get("min_dist_px") or max(tmpl.shape) * 0.8) * s, "min_score": sc["min_score"]}


def check_picks(sc, pos, pts, layout, site):
    s = sc["scale"]
    tol = 0.75 if sc["picker"] != "zncc" else 0.6
    pos_px = np.asarray(pos, dtype=np.float64).reshape(-1, 3) / s
    used = set()
    extras = []
    for i, o in enumerate(pos_px):
        d = np.linalg.norm(pts - o, axis=1) if len(pts) else np.array([np.inf])
        j = int(np.argmin(d))
        if d[j] <= tol * np.sqrt(3):
            if j in used:
                raise V("duplicate-pick", site, f"particle at {pts[j].tolist()} picked twice ({len(pos_px)} picks for {len(pts)} particles)", layout)
            used.add(j)
        else:
            extras.append(np.round(o, 2).tolist())
    if extras:
        raise V("spurious-pick", site, f"{len(extras)} picks away from every particle, e.g. {extras[:4]} ({len(pos_px)} picks for {len(pts)} particles)", layout)
    missing = [pts[j].tolist() for j in range(len(pts)) if j not in used]
    if missing:
        raise V("missed-particle", site, f"no pick at {missing[:4]} ({len(pos_px)} picks for {len(pts)} particles)", layout)


def execute(sc):
    import dask

    s = dict(sc["schedule"])
    mode = s.pop("mode", "prng")
    from simkit.compare import deep_equal

    sim = Sim(seed=s.get("seed", 0), mode=mode, workers=s.get("workers", 4), granularity=s.get("granularity", "task"),
              preempt_p=s.get("preempt_p", 0.0), policy=s.get("policy", "uniform"), pct_d=s.get("pct_d", 2), hot_boost=s.get("hot_boost", 0.0),
              preempts=s.get("preempts"), choices=s.get("choices"), faults=s.get("faults"), fault_events=s.get("fault_events"),
              hooks={"caches": W.find_caches(), "deep_equal": None})
    violation = None
    n_layouts = 0
    npts = 0
    nblocks = []
    try:
        W.reset_world(sc["np_seed"])
        seed_uuid(sc["uuid_seed"])
        img, pts, rots, tmpl = build_image(sc)
        npts = len(pts)
        if npts == 0:
            raise StopIteration
        picker, kw = make_picker(sc, tmpl)
        site = sc["picker"]
        ref_pos = ref_quat = None
        with W.knobs_ctx(sc["knobs"]), dask.config.set({"scheduler": sim.get}):
            for li, lay in enumerate(sc["layouts"]):
                arr = img.copy()
                image, _ = W.wrap_storage(arr, lay["kind"], lay["chunks"])
                import dask.array as _da

                nblocks.append(tuple(_da.asarray(image).numblocks))  # the chunk-size knob also splits numpy inputs
                try:
                    mol = picker.pick_molecules(image, sc["scale"], **kw)
                except SimDeadlock as e:
                    raise V("deadlock", "scheduler", str(e))
                pos = np.asarray(mol.pos, dtype=np.float64)
                n_layouts += 1
                check_picks(sc, pos, pts, li, site)
                order = np.lexsort(np.round(pos / sc["scale"], 0).T[::-1])
                pos_sorted = pos[order]
                quat_sorted = np.asarray(mol.quaternion(), dtype=np.float64)[order]
                if "score" not in mol.features.columns or mol.features.shape[0] != pos.shape[0]:
                    raise V("malformed-result", site, "score feature missing or of wrong length", li)
                if li == 0:
                    ref_pos, ref_quat = pos_sorted, quat_sorted
                    if sc["picker"] == "zncc":
                        check_rotations(sc, img, mol, tmpl, li)
                else:
                    if pos_sorted.shape != ref_pos.shape or np.abs(pos_sorted - ref_pos).max() > 1e-3 * sc["scale"]:
                        d = np.abs(pos_sorted - ref_pos).max() if pos_sorted.shape == ref_pos.shape else "shape"
                        raise V("chunking-dependent-result", site, f"positions for layout {lay['style']} differ from the numpy result (max {d})", li)
                    qd = np.minimum(np.abs(quat_sorted - ref_quat).max(axis=1), np.abs(quat_sorted + ref_quat).max(axis=1)).max()
                    if qd > 1e-5:
                        raise V("chunking-dependent-result", site, f"rotations for layout {lay['style']} differ from the numpy result", li)
    except V as v:
        violation = {"kind": v.kind, "site": v.site, "detail": v.detail[:500], "layout": v.layout,
                     "layout_style": sc["layouts"][v.layout]["style"] if v.layout is not None else None,
                     "multi_chunk": bool(v.layout is not None and v.layout < len(nblocks) and max(nblocks[v.layout]) > 1), "numblocks": nblocks[v.layout] if v.layout is not None and v.layout < len(nblocks) else None}
    except StopIteration:
        pass
    except Exception as e:  # noqa
        import traceback

        tb = traceback.extract_tb(e.__traceback__)
        inner = [f for f in tb if "/acryo/" in f.filename]
        if not inner:
            raise
        lay = sc["layouts"][n_layouts] if n_layouts < len(sc["layouts"]) else None
        violation = {"kind": "spurious-exception", "site": inner[-1].filename.split("/acryo/")[-1] + ":" + inner[-1].name,
                     "detail": f"{type(e).__name__}: {str(e)[:300]}", "layout": n_layouts, "layout_style": lay["style"] if lay else None,
                     "multi_chunk": bool(nblocks and max(nblocks[-1]) > 1), "numblocks": nblocks[-1] if nblocks else None}
    if violation is None and sim.race is not None:
        r_ = sim.race
        violation = {"kind": "array-modified-while-task-parked", "site": r_["function"],
                     "detail": f"array `{r_['variable']}` (shape {r_['shape']}) held by {r_['function']}() changed while that task was parked at {r_['parked_at']}: another task wrote into it"}
    st = sim.stats
    res = {
        "ok": violation is None, "violation": violation,
        "stats": dict(st, sites=len(sim.sites), steps=sim.steps, layouts=n_layouts, particles=npts),
        "digests": dict(sim.digests()),
        "result_digest": digest([violation["kind"] if violation else "ok", n_layouts]),
        "nontrivial": bool(n_layouts > 1 or violation is not None),
        "ops": [sc["picker"]] + [l["style"] for l in sc["layouts"]],
    }
    if violation is not None:
        res["trace"] = sim.trace()
    else:
        tr = sim.trace()
        res["trace_head"] = {"preempts": tr["preempts"][:6], "choices": tr["choices"][:8], "n_preempts": len(tr["preempts"]), "n_choices": len(tr["choices"])}
    return res


def check_rotations(sc, img, mol, tmpl, li):
    """The picked pose must reproduce the template when a subtomogram is loaded there (the contract between picker and loader)."""
    import dask
    from acryo import SubtomogramLoader

    if any(x % 2 == 0 for x in tmpl.shape):
        return  # even templates sit between voxels: interpolation blurs the comparison
    ld = SubtomogramLoader(img.astype(np.float32), mol, order=1, scale=sc["scale"], output_shape=tmpl.shape)
    with dask.config.set({"scheduler": Sim(mode="sequential").get}):
        subs = ld.asnumpy()
    t = tmpl - tmpl.mean()
    for i, sub in enumerate(subs):
        a = sub - sub.mean()
        cc = float((a * t).sum() / max(np.sqrt((a * a).sum() * (t * t).sum()), 1e-30))
        if cc < 0.9:
            raise V("wrong-rotation", sc["picker"], f"pick {i}: subtomogram loaded at the picked pose correlates {cc:.3f} with the template (wrong rotation reported)", li)


def to_trace_scenario(sc, outcome):
    sc2 = dict(sc)
    s = dict(sc["schedule"])
    tr = outcome.get("trace") or {}
    s.update(mode="trace", preempts=tr.get("preempts", []), choices=tr.get("choices", []), fault_events=tr.get("fault_events", []))
    s.pop("faults", None)
    sc2["schedule"] = s
    return sc2


def shrink_candidates(sc):
    out = []
    lays = sc["layouts"]
    if len(lays) > 2:
        for i in range(len(lays) - 1, 0, -1):
            s2 = dict(sc)
            s2["layouts"] = lays[:i] + lays[i + 1:]
            out.append(s2)
    if sc["n"] > 2:
        s2 = dict(sc)
        s2["n"] = max(2, sc["n"] // 2)
        out.append(s2)
    if sc["dtype"] != "float32":
        s2 = dict(sc)
        s2["dtype"] = "float32"
        out.append(s2)
    if sc["knobs"].get("chunk_size") or sc["knobs"].get("fuse") is not None:
        s2 = dict(sc)
        s2["knobs"] = {"chunk_size": None, "fuse": None}
        out.append(s2)
    sch = sc["schedule"]
    if sch.get("mode") == "prng" and (sch["workers"] > 1 or sch["preempt_p"] > 0 or sch.get("faults")):
        s2 = dict(sc)
        s2["schedule"] = dict(sch, workers=1, preempt_p=0.0, granularity="task", faults={})
        out.append(s2)
    return out


def match_known_finding(finding, res, sc):
    sig = finding.get("signature", {})
    v = res.get("violation") or {}
    if v.get("kind") not in sig.get("kinds", []):
        return False
    if sig.get("multi_chunk_only") and not v.get("multi_chunk"):
        return False
    if sig.get("pickers") and sc.get("picker") not in sig["pickers"]:
        return False
    return True


RULE = ("one evaluation = one image with 2-8 planted well-separated particles, one picker (LoG / DoG / ZNCC template matching with a quarter-turn rotation set), "
        "picked on 3-4 layouts of the same image (numpy, single chunk, regular, irregular, halves, tiny chunks below the overlap depth, memmap-like storage) under one "
        "seeded schedule; non-trivial = more than one layout was picked and compared; distinct = distinct event-log digest")


def sample_view(sc):
    return {k: sc[k] for k in ("picker", "shape", "scale", "R", "n", "dtype", "frac", "cut", "rot_set", "tb", "knobs")} | {
        "layouts": [{"kind": l["kind"], "style": l["style"], "chunks": l["chunks"]} for l in sc["layouts"]],
        "schedule": {k: v for k, v in sc["schedule"].items() if k not in ("preempts", "choices", "fault_events")}}

"""C15 - binned loaders look at the same physical region.

A run = a loader (single / batch; numpy / dask / memmap-like storage; chunk sizes that are or are not
multiples of b) and a short history of binning(b, compute) calls (also chained and repeated ones),
executed under the simulated scheduler and checked against a numpy block-sum model (DESIGN 4.4)."""
from __future__ import annotations

import random

import numpy as np

from simkit import world as W
from simkit.compare import EPS32, array_checksum, digest, max_abs_diff
from simkit.sched import POLICIES, Sim, SimDeadlock, seed_uuid

PROPERTY = "C15"
BUDGET = {"quick": {"runs": 480, "timeout": 150.0}, "thorough": {"runs": 16000, "timeout": 300.0}}
LEVEL = "exploration"


class V(Exception):
    def __init__(self, kind, site, detail):
        super().__init__(detail)
        self.kind, self.site, self.detail = kind, site, detail


def blocksum(a, b):
    s = [x - x % b for x in a.shape]
    a = a[: s[0], : s[1], : s[2]].astype(np.float64)
    return a.reshape(s[0] // b, b, s[1] // b, b, s[2] // b, b).sum(axis=(1, 3, 5))


def gen_schedule(rng):
    gran = rng.choice(["task", "task", "line", "opcode-some"])
    p = 0.0 if gran == "task" else rng.choice([0.01, 0.05, 0.2])
    return {"mode": "prng", "seed": rng.randrange(1 << 40), "workers": rng.choice([1, 2, 4, 8]), "granularity": gran,
            "preempt_p": p, "policy": rng.choice(list(POLICIES)), "pct_d": rng.randint(1, 3), "hot_boost": rng.choice([0.0, 0.3]),
            "faults": rng.choice([{}, {}, {}, {"F7": 0.1}, {"F10": 0.5}, {"F7": 0.1, "F10": 0.3}])}


def generate(seed: int, tier: str):
    rng = random.Random(seed)
    n_tomo = rng.choice([1, 1, 2, 3])
    shapes = [[rng.randint(24, 56) for _ in range(3)] for _ in range(n_tomo)]
    if rng.random() < 0.3:
        k = rng.choice([2, 3, 4, 6])
        shapes = [[s - s % k for s in sh] for sh in shapes]
    b0 = rng.choice([1, 2, 2, 2, 3, 3, 4, 5, 6])
    storage = []
    for t in range(n_tomo):
        kind = rng.choice(["numpy", "dask", "dask", "sim"])
        if kind == "numpy":
            storage.append({"kind": "numpy", "chunks": None, "style": "numpy"})
        else:
            style = rng.choice(["single", "regular", "irregular", "multiple", "bigmult"])
            if style == "multiple":
                # every chunk a multiple of b0 (except possibly the last); at most ~5 chunks per axis
                ch = [list(W._regular(s, b0 * max(2, -(-s // (5 * b0)) + rng.randint(0, 2)))) for s in shapes[t]]
            elif style == "bigmult":
                # irregular chunks whose *largest* entry is a multiple of b0 while inner ones are not
                ch = []
                for s in shapes[t]:
                    big = b0 * max(2, -(-s // (5 * b0)) + rng.randint(0, 1))
                    parts, left = [], s
                    while left > 0:
                        c = min(left, rng.choice([big, big, max(1, big - rng.randint(1, max(1, b0)))]))
                        parts.append(c)
                        left -= c
                    ch.append(parts)
            else:
                ch, style = W.gen_chunks(rng, shapes[t], style=style)
            storage.append({"kind": kind, "chunks": ch, "style": style})
    steps = []
    n_steps = rng.choice([1, 1, 2, 2, 3, 4]) if tier == "quick" else rng.choice([1, 2, 3, 4, 5, 6])
    for i in range(n_steps):
        steps.append({"src": rng.random(), "b": b0 if i == 0 else rng.choice([1, 2, 2, 3, b0]), "compute": rng.random() < 0.5,
                      "use_first": rng.choice([None, None, "load", "average"])})  # the source loader may have been used before it is binned
    sb = rng.choice([3, 4, 5])
    # scales are dyadic so that pos/scale stays exact (DESIGN 6.3 #10: what a non-dyadic scale does to order-0 windows is C02's business)
    out = {
        "property": PROPERTY, "seed": seed,
        "world": {"n_tomo": n_tomo, "shapes": shapes, "storage": storage, "values": rng.choice(["int", "int", "float"]), "dtype": rng.choice(["float32", "float32", "float32", "int16", "uint8", "int8"]), "tomo_seed": rng.randrange(1 << 30),
                  "mol_seed": rng.randrange(1 << 30), "n_mol": [rng.randint(2, 5) for _ in range(n_tomo)], "box": [sb, sb, sb] if rng.random() < 0.6 else [rng.choice([3, 4, 5]) for _ in range(3)],
                  "order": rng.choice([0, 1, 1, 3]), "scale": rng.choice([0.5, 1.0, 2.0, 2.0, 0.13375, 1.3]), "corner_safe": rng.random() < 0.2,
                  "rot": rng.choice(["identity", "identity", "random"]), "b0": b0,
                  "loader": "single" if n_tomo == 1 else "batch", "batch_order": rng.choice(["contiguous", "shuffled"])},
        "knobs": W.gen_knobs(rng), "steps": steps, "schedule": gen_schedule(rng),
        "uuid_seed": rng.randrange(1 << 30), "np_seed": rng.randrange(1 << 30),
    }
    w_ = out["world"]
    w_["dyadic"] = w_["scale"] in (0.5, 1.0, 2.0)
    if not w_["dyadic"] and w_["order"] == 0:
        w_["order"] = 1  # pos/scale is inexact for such scales; nearest-neighbour ties at voxel boundaries are C02's business
    return out


class Node:
    """Model of one loader in the history: numpy images, scale, positions (nm), cumulative factor."""

    def __init__(self, images, scale, pos, bfac):
        self.images, self.scale, self.pos, self.bfac = images, scale, pos, bfac


def build(w):
    from acryo import BatchLoader, Molecules, SubtomogramLoader
    from scipy.spatial.transform import Rotation

    rg = np.random.default_rng(w["tomo_seed"])
    tomos, images = [], []
    for t in range(w["n_tomo"]):
        shape = tuple(w["shapes"][t])
        if w["values"] == "int":
            dt = np.dtype(w.get("dtype", "float32"))
            if dt == np.uint8:
                arr = rg.integers(0, 200, size=shape).astype(dt)  # block sums exceed the dtype's range
            elif dt == np.int8:
                arr = rg.integers(-100, 101, size=shape).astype(dt)
            elif dt == np.int16:
                arr = rg.integers(-3000, 3001, size=shape).astype(dt)
            else:
                arr = rg.integers(-8, 9, size=shape).astype(np.float32)
        else:
            arr = rg.normal(size=shape).astype(np.float32)
        st = w["storage"][t]
        img, _ = W.wrap_storage(arr, st["kind"], st["chunks"], name=f"tomo{t}")
        tomos.append(arr)
        images.append(img)
    b0 = w["b0"]
    mg = np.random.default_rng(w["mol_seed"])
    mols, pos_all, tidx = [], [], []
    uid = 0
    for t in range(w["n_tomo"]):
        shape = np.array(w["shapes"][t])
        n = w["n_mol"][t]
        box = np.array(w["box"])
        nb = shape // b0  # binned shape
        half = (box * 1.8) / 2 + w["order"] + 2  # in binned voxels; generous (rotation, spline support)
        pos_px = np.zeros((n, 3))
        for i in range(n):
            lo = np.ceil(half).astype(int)
            hi = nb - 1 - lo
            hi = np.maximum(hi, lo)
            k = mg.integers(lo, hi + 1)
            kc = k + np.where(box % 2 == 0, 0.5, 0.0)  # sample points of the binned window fall on binned voxels
            if mg.random() < 0.7 and w.get("dyadic", True):
                pos_px[i] = b0 * kc + (b0 - 1) / 2
            else:
                pos_px[i] = b0 * kc + (b0 - 1) / 2 + mg.uniform(-1.0, 1.0, size=3)
        if w["rot"] == "identity":
            rot = Rotation.identity(n)
        else:
            rot = Rotation.random(n, random_state=int(mg.integers(1 << 30)))
        mols.append(Molecules(pos_px * w["scale"], rot, features={"uid": np.arange(uid, uid + n, dtype=np.int64), "val": mg.normal(size=n)}))
        pos_all.append(pos_px * w["scale"])
        tidx += [t] * n
        uid += n
    kw = dict(order=w["order"], scale=w["scale"], output_shape=tuple(w["box"]), corner_safe=w["corner_safe"])
    if w["loader"] == "single":
        ld = SubtomogramLoader(images[0], mols[0], **kw)
        node = Node({None: tomos[0]}, w["scale"], np.asarray(ld.molecules.pos, dtype=np.float64), 1)
        row_img = [None] * len(mols[0])
    else:
        ld = BatchLoader(**kw)
        for img, mol in zip(images, mols):
            ld.add_tomogram(img, mol)
        if w["batch_order"] == "shuffled":
            perm = np.random.default_rng(w["mol_seed"] + 3).permutation(ld.molecules.count())
            ld = ld.replace(molecules=ld.molecules.subset(perm))
        node = Node({t: tomos[t] for t in range(w["n_tomo"])}, w["scale"], np.asarray(ld.molecules.pos, dtype=np.float64), 1)
        row_img = ld.molecules.features["image-id"].to_list()
    return ld, node, tomos, row_img


def loader_images(ld):
    if hasattr(ld, "images"):
        return dict(ld.images)
    return {None: ld.image}


def check_binned(w, parent_ld, parent: Node, new_ld, b, compute, row_img, site, loads):
    """All of C15's clauses for one binning step; returns the model node of the new loader."""
    import dask.array as da

    # scale
    if abs(new_ld.scale - parent.scale * b) > 1e-9 * max(1.0, parent.scale * b):
        raise V("wrong-scale", site, f"scale {new_ld.scale} != {parent.scale} * {b}")
    # images: block sums of the parent's images, type follows the compute flag
    imgs = loader_images(new_ld)
    pimgs = loader_images(parent_ld)
    if list(imgs.keys()) != list(pimgs.keys()):
        raise V("image-registry", site, f"image keys {list(imgs.keys())} != parent's {list(pimgs.keys())}")
    new_images = {}
    for k, img in imgs.items():
        pimg = pimgs[k]
        if b == 1:
            expect_np = isinstance(pimg, np.ndarray)
        else:
            expect_np = isinstance(pimg, np.ndarray) or compute
        if isinstance(img, np.ndarray) != expect_np:
            raise V("image-type", site, f"image {k!r} is {type(img).__name__} for compute={compute} and a {type(pimg).__name__} parent")
        val = np.asarray(img.compute() if isinstance(img, da.Array) else img)
        if isinstance(img, da.Array) and tuple(img.shape) != tuple(val.shape):
            raise V("declared-shape", site, f"lazy binned image declares {img.shape}, computes {val.shape}")
        exp = blocksum(parent.images[k], b) if b > 1 else np.asarray(parent.images[k], dtype=np.float64)
        if val.shape != exp.shape:
            raise V("not-a-block-sum", site, f"binned image {k!r} has shape {val.shape}, block sum has {exp.shape}")
        if w["values"] == "int":
            bad = not np.array_equal(val.astype(np.float64), exp)
        else:
            bad = max_abs_diff(val, exp) > 8 * EPS32 * (b ** 3) * parent.bfac ** 3 * 6.0
        if bad:
            idx = np.unravel_index(int(np.argmax(np.abs(val.astype(np.float64) - exp))), exp.shape)
            raise V("not-a-block-sum", site, f"binned image {k!r} differs from the {b}x{b}x{b} block sum, e.g. at {tuple(int(i) for i in idx)}: {val[idx]} vs {exp[idx]}")
        # the model image keeps the dtype of the binned image (integer tomograms are loaded as integers; that is C02's business)
        new_images[k] = exp.astype(val.dtype) if w["values"] == "int" else val.astype(np.float32)
    # molecules: same physical location -> same block; everything else unchanged
    pos = np.asarray(new_ld.molecules.pos, dtype=np.float64)
    exp_pos = parent.pos - (b - 1) / 2 * parent.scale
    if pos.shape != exp_pos.shape or np.abs(pos - exp_pos).max() > 1e-4 * max(1.0, parent.scale * b):
        raise V("molecule-moved", site, f"binned positions differ from pos - (b-1)/2*scale by {np.abs(pos - exp_pos).max() if pos.shape == exp_pos.shape else 'shape'}")
    blk_old = np.floor((parent.pos / parent.scale + 0.5) / b + 1e-6)  # voxel i covers [i-0.5, i+0.5)
    blk_new = np.round(pos / (parent.scale * b) + 1e-9)
    on_grid = np.abs(pos / (parent.scale * b) - np.round(pos / (parent.scale * b))) < 1e-5
    if (np.abs(blk_old - blk_new)[on_grid] > 0).any():
        raise V("molecule-moved", site, "a molecule at a block centre no longer points at the block that contains its original position")
    q0 = np.asarray(parent_ld.molecules.quaternion(), dtype=np.float64)
    q1 = np.asarray(new_ld.molecules.quaternion(), dtype=np.float64)
    if q0.shape != q1.shape or np.minimum(np.abs(q0 - q1).max(axis=1), np.abs(q0 + q1).max(axis=1)).max() > 1e-6:
        raise V("molecule-moved", site, "orientations changed by binning")
    if not new_ld.molecules.features.equals(parent_ld.molecules.features):
        raise V("molecule-moved", site, "features changed by binning")
    if new_ld.order != parent_ld.order or tuple(new_ld.output_shape) != tuple(parent_ld.output_shape) or new_ld.corner_safe != parent_ld.corner_safe:
        raise V("loader-params", site, "order / output_shape / corner_safe changed by binning")
    node = Node(new_images, parent.scale * b, exp_pos if b > 1 else parent.pos, parent.bfac * b)
    # loads: (i) independent loader on the model image, (ii) block sum of the b-times larger parent window
    check_loads(w, parent_ld, parent, new_ld, node, b, row_img, site, loads)
    return node


def check_loads(w, parent_ld, parent, new_ld, node, b, row_img, site, loads):
    from acryo import SubtomogramLoader
    from acryo._utils import SubvolumeOutOfBoundError

    n = new_ld.molecules.count()
    need = max(w["box"]) + 2 * w["order"] + 8
    if min(min(im.shape) for im in node.images.values()) < need:
        return  # volume hardly larger than a window: every load would be boundary padding (slow, and C02's business)
    try:
        arr = np.asarray(new_ld.asnumpy())
    except SubvolumeOutOfBoundError:
        return  # the binned volume is too small for these boxes: nothing to compare
    loads.append(arr)
    if arr.shape != (n,) + tuple(w["box"]):
        raise V("load-mismatch", site, f"asnumpy returned {arr.shape}")
    box = np.array(w["box"])
    api_budget = [2]
    for i in range(n):
        k = row_img[i]
        img_model = node.images[k]
        row = new_ld.molecules.subset([i])
        if hasattr(new_ld, "images"):
            row = type(row).from_dataframe(row.to_dataframe())
        iso = SubtomogramLoader(img_model, type(row)(np.asarray(row.pos).copy(), row.rotator), order=w["order"], scale=node.scale,
                                output_shape=tuple(w["box"]), corner_safe=w["corner_safe"])
        ref = _seq(lambda: iso.load(0))
        tol = 2e-5 * max(1.0, float(np.abs(ref).max())) if w["values"] != "int" or w["order"] == 3 else 1e-4
        if max_abs_diff(arr[i], ref) > tol:
            raise V("load-mismatch", site, f"row {i}: subtomogram of the binned loader differs from loading the block-summed image at the binned pose (max diff {max_abs_diff(arr[i], ref):.4g})")
        # (ii) the property's own statement, where it is exact: identity orientation, sample points on voxels, interior
        if b > 1 and w["rot"] == "identity" and w.get("dyadic", True):
            c = np.asarray(row.pos[0], dtype=np.float64) / node.scale
            first = c - (box - 1) / 2
            if np.abs(first - np.round(first)).max() < 1e-6:
                z0 = np.round(first).astype(int)
                if (z0 >= 0).all() and (z0 + box <= np.array(img_model.shape)).all():
                    big = parent.images[k][z0[0] * b:(z0[0] + box[0]) * b, z0[1] * b:(z0[1] + box[1]) * b, z0[2] * b:(z0[2] + box[2]) * b]
                    exp = blocksum(big, b)
                    tol2 = (1e-4 if w["values"] == "int" and w["order"] != 3 else 3e-5 * max(1.0, float(np.abs(exp).max())))
                    if max_abs_diff(arr[i], exp) > tol2:
                        raise V("load-mismatch", site, f"row {i}: binned subtomogram is not the block sum of the {b}-times larger original window (max diff {max_abs_diff(arr[i], exp):.4g})")
                    # and through the API, as the property states it (at most two rows per step: load() builds all tasks)
                    orig = None
                    if api_budget[0] > 0:
                        api_budget[0] -= 1
                        try:
                            sub_ld = parent_ld.replace(molecules=parent_ld.molecules.subset([i]))
                            orig = _seq(lambda: sub_ld.load(0, output_shape=tuple(int(x) for x in box * b)))
                        except SubvolumeOutOfBoundError:
                            orig = None
                    if orig is not None and w["order"] != 3:
                        if max_abs_diff(arr[i], blocksum(orig, b)) > tol2:
                            raise V("load-mismatch", site, f"row {i}: binned.load(i) != blocksum(original.load(i, shape=b*box))")


def _seq(fn):
    import dask

    with dask.config.set({"scheduler": Sim(mode="sequential").get}):
        return fn()


def run_history(sc, sim):
    import dask

    w = sc["world"]
    W.reset_world(sc["np_seed"])
    seed_uuid(sc["uuid_seed"])
    ld0, node0, tomos, row_img = build(w)
    sums = [array_checksum(t) for t in tomos]
    pool = [(ld0, node0)]
    results = []
    loads = []
    with W.knobs_ctx(sc["knobs"]), dask.config.set({"scheduler": sim.get}):
        for si, st in enumerate(sc["steps"]):
            j = int(st["src"] * len(pool)) % len(pool)
            src, node = pool[j]
            b = st["b"]
            if min(min(im.shape) for im in node.images.values()) // b < 2:
                continue
            if st.get("use_first"):
                from acryo._utils import SubvolumeOutOfBoundError

                try:
                    src.load(0) if st["use_first"] == "load" else src.average()
                except SubvolumeOutOfBoundError:
                    pass
            before = [digest(l.molecules) + repr(l.scale) for l, _ in pool]
            new = src.binning(b, compute=st["compute"])
            after = [digest(l.molecules) + repr(l.scale) for l, _ in pool]
            site = "batch.binning" if hasattr(src, "images") else "binning"
            if before != after:
                raise V("parent-modified", site, f"step {si}: binning({b}) changed an existing loader")
            new_node = check_binned(w, src, node, new, b, st["compute"], row_img, site, loads)
            pool.append((new, new_node))
            results.append({k: array_checksum(np.asarray(v)) for k, v in new_node.images.items()})
        # the originals are untouched
        for t, s_ in zip(tomos, sums):
            if array_checksum(t) != s_:
                raise V("parent-modified", "binning", "the original tomogram array was written to")
    return results, loads, len(pool)


def execute(sc):
    from simkit.compare import deep_equal

    s = dict(sc["schedule"])
    mode = s.pop("mode", "prng")
    sim = Sim(seed=s.get("seed", 0), mode=mode, workers=s.get("workers", 4), granularity=s.get("granularity", "task"),
              preempt_p=s.get("preempt_p", 0.0), policy=s.get("policy", "uniform"), pct_d=s.get("pct_d", 2), hot_boost=s.get("hot_boost", 0.0),
              preempts=s.get("preempts"), choices=s.get("choices"), faults=s.get("faults"), fault_events=s.get("fault_events"),
              hooks={"caches": W.find_caches(), "deep_equal": deep_equal})
    violation = None
    npool = 0
    loads = []
    try:
        try:
            res, loads, npool = run_history(sc, sim)
        except SimDeadlock as e:
            raise V("deadlock", "scheduler", str(e))
        if sim.dup_mismatch:
            raise V("reexecution-differs", sim.dup_mismatch, "two executions of one task returned different values")
        # schedule invariance: the same history executed sequentially gives bitwise the same subtomograms
        ref_res, ref_loads, _ = run_history(sc, Sim(mode="sequential"))
        if digest(loads) != digest(ref_loads):
            raise V("schedule-dependent-result", "binning", "subtomograms of the binned loaders differ from the sequential reference")
    except V as v:
        violation = {"kind": v.kind, "site": v.site, "detail": v.detail[:500]}
    except Exception as e:  # noqa
        import traceback

        tb = traceback.extract_tb(e.__traceback__)
        inner = [f for f in tb if "/acryo/" in f.filename]
        if not inner:
            raise
        violation = {"kind": "spurious-exception", "site": inner[-1].filename.split("/acryo/")[-1] + ":" + inner[-1].name,
                     "detail": f"{type(e).__name__}: {str(e)[:300]}"}
    if violation is None and sim.race is not None:
        r_ = sim.race
        violation = {"kind": "array-modified-while-task-parked", "site": r_["function"],
                     "detail": f"array `{r_['variable']}` (shape {r_['shape']}) held by {r_['function']}() changed while that task was parked at {r_['parked_at']}: another task wrote into it"}
    st = sim.stats
    res = {
        "ok": violation is None, "violation": violation,
        "stats": dict(st, sites=len(sim.sites), steps=sim.steps, binned_loaders=max(0, npool - 1), loads=len(loads)),
        "digests": dict(sim.digests()),
        "result_digest": digest([violation["kind"] if violation else "ok", digest(loads)]),
        "nontrivial": bool(npool > 1),
        "ops": [f"bin{st_['b']}{'c' if st_['compute'] else 'l'}" for st_ in sc["steps"]],
    }
    if violation is not None:
        res["trace"] = sim.trace()
    else:
        tr = sim.trace()
        res["trace_head"] = {"preempts": tr["preempts"][:6], "choices": tr["choices"][:8], "n_preempts": len(tr["preempts"]), "n_choices": len(tr["choices"])}
    return res


def to_trace_scenario(sc, outcome):
    sc2 = dict(sc)
    s = dict(sc["schedule"])
    tr = outcome.get("trace") or {}
    s.update(mode="trace", preempts=tr.get("preempts", []), choices=tr.get("choices", []), fault_events=tr.get("fault_events", []))
    s.pop("faults", None)
    sc2["schedule"] = s
    return sc2


def shrink_candidates(sc):
    out = []
    steps = sc["steps"]
    if len(steps) > 1:
        for i in range(len(steps) - 1, -1, -1):
            s2 = dict(sc)
            s2["steps"] = steps[:i] + steps[i + 1:]
            out.append(s2)
    w = sc["world"]
    if any(st["kind"] != "numpy" for st in w["storage"]):
        for style in ("single",):
            s2 = dict(sc)
            w2 = dict(w)
            w2["storage"] = [dict(st, chunks=[[x] for x in sh], style="single") if st["kind"] != "numpy" else st for st, sh in zip(w["storage"], w["shapes"])]
            s2["world"] = w2
            out.append(s2)
    if w["rot"] != "identity":
        s2 = dict(sc)
        s2["world"] = dict(w, rot="identity")
        out.append(s2)
    if sc["knobs"].get("chunk_size") or sc["knobs"].get("fuse") is not None:
        s2 = dict(sc)
        s2["knobs"] = {"chunk_size": None, "fuse": None}
        out.append(s2)
    sch = sc["schedule"]
    if sch.get("mode") == "prng" and (sch["workers"] > 1 or sch["preempt_p"] > 0 or sch.get("faults")):
        s2 = dict(sc)
        s2["schedule"] = dict(sch, workers=1, preempt_p=0.0, granularity="task", faults={})
        out.append(s2)
    return out


RULE = ("one evaluation = one loader (single/batch, numpy/dask/memmap-like storage with chunk sizes that are or are not multiples of b, image shapes divisible or not) "
        "and a history of 1-4 binning(b, compute) calls (b in 1..6, chained and repeated) executed under one seeded schedule and checked against a numpy block-sum model; "
        "non-trivial = at least one binned loader was produced and fully checked; distinct = distinct event-log digest")


def sample_view(sc):
    w = sc["world"]
    return {"world": {k: v for k, v in w.items() if k != "storage"}, "storage": [{"kind": s["kind"], "style": s["style"], "chunks": s["chunks"]} for s in w["storage"]],
            "knobs": sc["knobs"], "steps": sc["steps"], "schedule": {k: v for k, v in sc["schedule"].items() if k not in ("preempts", "choices", "fault_events")}}

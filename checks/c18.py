"""C18 - PCA classification matches exact PCA, labels stay attached to their molecules.

(a) PcaClassifier on synthetic stacks with a prescribed spectrum and planted classes: every chunking of the
    stack (rows, one image per chunk, image axes), masks, `array.chunk-size`, schedules and ambient
    np.random states, against a float64 exact SVD of the centred masked data.
(b) loader.classify on tomograms with two planted particle classes: one integer label per molecule in molecule
    order, nothing else changed (DESIGN 4.5)."""
from __future__ import annotations

import random

import numpy as np

from simkit import world as W
from simkit.compare import digest, max_abs_diff
from simkit.sched import POLICIES, Sim, SimDeadlock, seed_uuid

PROPERTY = "C18"
BUDGET = {"quick": {"runs": 320, "timeout": 200.0}, "thorough": {"runs": 8000, "timeout": 400.0}}
LEVEL = "exploration"


class V(Exception):
    def __init__(self, kind, site, detail):
        super().__init__(detail)
        self.kind, self.site, self.detail = kind, site, detail


def gen_schedule(rng):
    gran = rng.choice(["task", "task", "line"])
    p = 0.0 if gran == "task" else rng.choice([0.01, 0.05])
    return {"mode": "prng", "seed": rng.randrange(1 << 40), "workers": rng.choice([1, 2, 4, 8]), "granularity": gran,
            "preempt_p": p, "policy": rng.choice(list(POLICIES)), "pct_d": rng.randint(1, 3), "hot_boost": 0.0, "faults": rng.choice([{}, {}, {}, {"F10": 0.5}])}


def generate(seed: int, tier: str):
    rng = random.Random(seed)
    mode = rng.choice(["stack", "stack", "stack", "loader"])
    sc = {"property": PROPERTY, "seed": seed, "mode": mode, "knobs": W.gen_knobs(rng), "schedule": gen_schedule(rng),
          "uuid_seed": rng.randrange(1 << 30), "np_seed": rng.randrange(1 << 30), "np_seed_ref": rng.randrange(1 << 30)}
    if mode == "stack":
        big = rng.random() < 0.5
        if big:
            shape = rng.choice([[8, 8, 9], [9, 8, 8], [10, 7, 8], [6, 10, 9]])  # D > 500: randomized solver
            n = rng.randint(8, 60)
        elif rng.random() < 0.2:
            shape = [4, 4, rng.choice([3, 4])]
            n = rng.randint(510, 640)  # N > 500 with tiny images
        else:
            shape = [rng.randint(4, 7) for _ in range(3)]  # D <= 343: exact solver
            n = rng.randint(6, 60)
        ncomp = rng.randint(1, 4)
        ncls = rng.choice([2, 2, 3])
        n = max(n, ncomp + 2, 2 * ncls + 2)
        few = rng.random() < 0.15
        if few:
            # as few images as the property allows (N >= n_components + 1): n_components >= 0.8 N selects the exact solver
            ncomp = rng.randint(3, 6)
            ncls = 2
            n = ncomp + rng.randint(1, 2)
        container = rng.choice(["numpy", "dask_rows", "dask_rows", "dask_one", "dask_img"])
        if container == "dask_one" and n > 40:
            container = "dask_rows"
        if n > 100 and sc["knobs"].get("chunk_size") in ("1KiB", "4KiB", "16KiB"):
            sc["knobs"]["chunk_size"] = "256KiB"
        if container == "dask_rows":
            rows, left = [], n
            while left > 0:
                c = min(left, rng.randint(max(1, n // 8), max(2, n // 2)))
                rows.append(c)
                left -= c
            chunks = [rows] + [[s] for s in shape]
        elif container == "dask_one":
            chunks = [[1] * n] + [[s] for s in shape]
        elif container == "dask_img":
            rows = list(W._regular(n, rng.randint(max(1, n // 4), n)))
            ax = rng.randrange(3)
            chunks = [rows] + [[s] if i != ax else list(W._regular(s, rng.randint(2, s))) for i, s in enumerate(shape)]
        else:
            chunks = None
        sc["stack"] = {"n": n, "shape": shape, "ncomp": ncomp, "ncls": ncls, "gap": rng.choice([1.5, 2.0, 3.0]), "noise": rng.choice([0.0, 0.02, 0.05, 0.1]),
                       "mask": rng.choice(["none", "none", "binary", "soft", "softpos"]), "container": container, "chunks": chunks, "data_seed": rng.randrange(1 << 30),
                       "kseed": rng.choice([0, 1, rng.randrange(100)]), "planted": (rng.random() < 0.6) and not few,
                       "dtype": rng.choice(["float32", "float32", "float64"]), "sub_seed": rng.randrange(1 << 30)}
    else:
        b = rng.choice([7, 8, 9])
        n = rng.randint(8, 24)
        shape = [rng.randint(40, 52) for _ in range(3)]
        kind = rng.choice(["numpy", "dask", "sim"])
        st = {"kind": "numpy", "chunks": None, "style": "numpy"}
        if kind != "numpy":
            ch, style = W.gen_chunks(rng, shape, style=rng.choice(["single", "regular", "irregular"]))
            st = {"kind": kind, "chunks": ch, "style": style}
        sc["loader"] = {"box": [b, b, b], "n": n, "shape": shape, "storage": st, "order": rng.choice([1, 3]), "scale": rng.choice([0.5, 1.0]),
                        "data_seed": rng.randrange(1 << 30), "mask": rng.random() < 0.5, "template": rng.random() < 0.5, "tilt": rng.choice([None, None, [-60, 60]]),
                        "kseed": rng.randrange(10), "label_name": rng.choice(["cluster", "cls"]), "ncomp": rng.choice([2, 2, 3])}
    return sc


# ------------------------------------------------------------------------------------------
def make_stack(p):
    """Stack with prescribed singular values (of the *centred, masked* data) and planted classes."""
    rg = np.random.default_rng(p["data_seed"])
    n, shape = p["n"], tuple(p["shape"])
    D = int(np.prod(shape))
    if p["mask"] == "none":
        mask = None
        mflat = np.ones(D)
    else:
        zz, yy, xx = np.indices(shape, dtype=np.float64)
        c = (np.array(shape) - 1) / 2
        r = np.sqrt(((zz - c[0]) / (shape[0] / 2)) ** 2 + ((yy - c[1]) / (shape[1] / 2)) ** 2 + ((xx - c[2]) / (shape[2] / 2)) ** 2)
        if p["mask"] == "binary":
            mask = (r <= 0.9).astype(np.float32)
        elif p["mask"] == "softpos":
            mask = (0.15 + 0.85 * np.exp(-(r ** 2) * 2.0)).astype(np.float32)  # soft, nowhere zero, nowhere one
        else:
            mask = np.clip(1.5 - 1.5 * r, 0, 1).astype(np.float32)
        mflat = mask.ravel().astype(np.float64)
    k = p["ncomp"] + 1
    ncls = p["ncls"]
    labels = rg.integers(0, ncls, size=n)
    labels[:ncls] = np.arange(ncls)  # every class present
    m2 = min(n, 2 * ncls) - ncls
    labels[ncls:ncls + m2] = np.arange(ncls)[:m2]
    # left factors: centred, orthonormal; the first ncls-1 encode the classes when planted
    cols = []
    if p["planted"]:
        for j in range(ncls - 1):
            v = np.where(labels == j, 1.0, -1.0 / (ncls - 1) if ncls > 2 else -1.0)
            cols.append(v)
    while len(cols) < k:
        cols.append(rg.normal(size=n))
    A = np.stack(cols[:k], axis=1)
    A = A - A.mean(axis=0)
    Q, _ = np.linalg.qr(A)
    # keep the planted direction (first columns) as they are after orthonormalisation: QR preserves span order
    Vr = rg.normal(size=(D, k)) * (mflat[:, None] > 0)
    Vq, _ = np.linalg.qr(Vr)
    s = np.array([10.0 / p["gap"] ** i for i in range(k)])
    if p["planted"]:
        s[: ncls - 1] = 10.0 * 4.0  # classes clearly separated: planted directions dominate
        s[ncls - 1:] = [10.0 / p["gap"] ** i for i in range(k - (ncls - 1))]
    X = (Q * s) @ Vq.T
    # data that, once masked, equals X on the support of the mask
    safe = np.where(mflat > 0, mflat, 1.0)
    X = X / safe
    X = X + rg.normal(size=(n, D)) * p["noise"] * (10.0 / p["gap"] ** (k - 1)) / np.sqrt(max(n, 1)) * 0.5
    X = X + rg.normal(size=D) * 3.0  # common offset: PCA must centre
    return X.reshape((n,) + shape).astype(np.dtype(p.get("dtype", "float32"))), mask, labels


def exact_pca(X, mask, ncomp):
    A = X.astype(np.float64)
    if mask is not None:
        A = A * mask.astype(np.float64)
    A = A.reshape(A.shape[0], -1)
    mean = A.mean(axis=0)
    Ac = A - mean
    u, s, vt = np.linalg.svd(Ac, full_matrices=False)
    return s, vt, Ac


def run_stack(sc, sim, np_seed, eager=False):
    import dask
    import dask.array as da
    from acryo.classification import PcaClassifier

    p = sc["stack"]
    W.reset_world(np_seed)
    seed_uuid(sc["uuid_seed"])
    X, mask, labels = make_stack(p)
    Xsum = digest(X)
    if p["container"] == "numpy" or eager:
        stack = X
    else:
        stack = da.from_array(X, chunks=tuple(tuple(c) for c in p["chunks"]))
    with W.knobs_ctx({} if eager else sc["knobs"]), dask.config.set({"scheduler": sim.get}):
        clf = PcaClassifier(stack, mask, n_components=p["ncomp"], n_clusters=p["ncls"], seed=p["kseed"])
        clf.run()
        tr = np.asarray(clf.get_transform())
        out = {"sv": np.asarray(clf.pca.singular_values_), "comp": np.asarray(clf.pca.components_), "tr": tr, "labels": np.asarray(clf.labels)}
        # projections stay attached to their images: any selection / order of images, and the stack fed back through transform / predict
        sr = np.random.default_rng(p.get("sub_seed", 0))
        sel = [int(i) for i in sr.permutation(X.shape[0])[: max(1, min(X.shape[0], int(sr.integers(1, 8))))]]
        out["sel"] = sel
        out["tr_sel"] = np.asarray(clf.get_transform(sel))
        again = stack if not isinstance(stack, np.ndarray) else da.from_array(X, chunks=(max(1, X.shape[0] // 3),) + X.shape[1:])
        out["tr_again"] = np.asarray(clf.transform(again))
        out["pred"] = np.asarray(clf.predict(again))
        out["centers"] = np.asarray(clf.kmeans.cluster_centers_, dtype=np.float64)
        # plain numpy images are accepted too (the repository's own test passes them); the caller's array must survive
        Xn = X[: min(6, X.shape[0])].copy()
        Xn_sum = digest(Xn)
        t1 = np.asarray(clf.transform(Xn))
        t2 = np.asarray(clf.transform(Xn))
        out["np_input_kept"] = digest(Xn) == Xn_sum
        out["np_tr_repeat"] = float(np.abs(t1 - t2).max()) if t1.shape == t2.shape else float("inf")
        out["np_tr_first"] = t1
    if digest(X) != Xsum:
        raise V("inputs-modified", "PcaClassifier", "the input stack was modified")
    return out, X, mask, labels


def same_partition(a, b):
    m = {}
    for x, y in zip(a, b):
        if m.setdefault(int(x), int(y)) != int(y):
            return False
    return len(set(m.values())) == len(m)


def check_stack(sc, sim):
    p = sc["stack"]
    out, X, mask, planted = run_stack(sc, sim, sc["np_seed"])
    ref, _, _, _ = run_stack(sc, Sim(mode="sequential"), sc["np_seed_ref"])
    # schedule + ambient RNG invariance on the identical graph: bitwise
    for key in ("sv", "comp", "tr", "labels"):
        if digest(out[key]) != digest(ref[key]):
            d = max_abs_diff(out[key], ref[key])
            raise V("ambient-state-dependent-result", "PcaClassifier", f"{key} differs (max {d:.3g}) from the sequential reference run under another global np.random state")
    k = p["ncomp"]
    s0, vt0, Ac = exact_pca(X, mask, k)
    sv = out["sv"]
    if sv.shape != (k,) or out["comp"].shape != (k, Ac.shape[1]) or out["tr"].shape != (X.shape[0], k) or out["labels"].shape != (X.shape[0],):
        raise V("pca-mismatch", "PcaClassifier", f"shapes: sv {sv.shape}, components {out['comp'].shape}, transform {out['tr'].shape}, labels {out['labels'].shape}")
    scale_ = max(float(np.abs(out["tr"]).max()), 1e-30)
    if out["tr_sel"].shape != (len(out["sel"]), k) or np.abs(out["tr_sel"] - out["tr"][out["sel"]]).max() > 1e-4 * scale_:
        raise V("projections-detached", "get_transform", f"get_transform({out['sel']}) does not return the projections of those images in that order")
    if out["tr_again"].shape != out["tr"].shape or np.abs(out["tr_again"] - out["tr"]).max() > 1e-4 * scale_:
        raise V("projections-detached", "transform", "transform(stack) differs from the projections of the fitted stack")
    # predict() must reproduce the fitted labels, except for images (numerically) equidistant from two cluster centres,
    # where a last-bit difference between the two projections may legitimately flip the assignment
    dist = np.sqrt(((out["tr"].astype(np.float64)[:, None, :] - out["centers"][None, :, :]) ** 2).sum(axis=2))
    ds = np.sort(dist, axis=1)
    clear = (ds[:, 1] - ds[:, 0]) > 1e-4 * scale_ if ds.shape[1] > 1 else np.ones(len(ds), bool)  # also: coincident centres
    if (out["pred"][clear] != out["labels"][clear]).any():
        raise V("projections-detached", "predict", "predict(stack) differs from the labels of the fitted stack")
    if not out["np_input_kept"]:
        raise V("inputs-modified", "transform", "transform(numpy images) modified the caller's array")
    if out["np_tr_repeat"] > 1e-4 * scale_ or np.abs(out["np_tr_first"] - out["tr"][: out["np_tr_first"].shape[0]]).max() > 1e-4 * scale_:
        raise V("projections-detached", "transform", "transform(numpy images) is not repeatable / differs from the projections of the fitted stack")
    rel = np.abs(sv - s0[:k]) / s0[:k]
    if rel.max() > 1e-3:
        raise V("pca-mismatch", "singular_values", f"singular values {sv} vs exact {s0[:k]} (rel err {rel.max():.3g}; spectrum {np.round(s0[:k + 2], 3)})")
    # subspace of the first k components (well defined: gap sigma_k / sigma_{k+1} >= 1.5 by construction)
    gap_ok = len(s0) > k and s0[k - 1] / max(s0[k], 1e-30) >= 1.4
    if gap_ok:
        P = out["comp"].T.astype(np.float64) @ out["comp"].astype(np.float64)
        P0 = vt0[:k].T @ vt0[:k]
        if np.abs(P - P0).max() > 2e-3:
            raise V("pca-mismatch", "components", f"span of the components differs from the exact principal subspace (max |P-P0| = {np.abs(P - P0).max():.3g})")
        T0 = Ac @ vt0[:k].T
        G, G0 = out["tr"].astype(np.float64) @ out["tr"].astype(np.float64).T, T0 @ T0.T
        if np.abs(G - G0).max() > 2e-3 * s0[0] ** 2 / max(1, X.shape[0]) + 1e-4 * np.abs(G0).max():
            raise V("pca-mismatch", "projections", f"projections differ from the exact ones (max Gram diff {np.abs(G - G0).max():.3g})")
    # individual components where isolated
    for i in range(k):
        lo = s0[i - 1] / s0[i] if i > 0 else np.inf
        hi = s0[i] / s0[i + 1] if i + 1 < len(s0) and s0[i + 1] > 0 else np.inf
        if lo >= 1.4 and hi >= 1.4:
            c = out["comp"][i].astype(np.float64)
            cos = abs(c @ vt0[i]) / max(np.linalg.norm(c), 1e-30)
            if cos < 1 - 1e-4:
                raise V("pca-mismatch", "components", f"component {i} has |cos| = {cos:.6f} with the exact one")
            t0 = Ac @ vt0[i]
            t = out["tr"][:, i].astype(np.float64)
            if min(np.abs(t - t0).max(), np.abs(t + t0).max()) > 2e-3 * s0[0]:
                raise V("pca-mismatch", "projections", f"projection on component {i} differs from the exact one")
    if p["planted"] and p["ncls"] - 1 <= k:
        if not same_partition(planted, out["labels"]) or len(set(out["labels"].tolist())) != p["ncls"]:
            raise V("classes-merged", "labels", f"planted classes {planted.tolist()[:20]} vs labels {out['labels'].tolist()[:20]}")
    # eager twin: numpy stack, default knobs
    if p["container"] != "numpy" or sc["knobs"].get("chunk_size"):
        twin, _, _, _ = run_stack(sc, Sim(mode="sequential"), sc["np_seed"] + 7, eager=True)
        if (np.abs(twin["sv"] - sv) / s0[:k]).max() > 2e-3:
            raise V("chunking-dependent-result", "singular_values", f"singular values {sv} for chunking {p['container']} vs {twin['sv']} for the numpy stack")
        if p["planted"] and p["ncls"] - 1 <= k and not same_partition(twin["labels"], out["labels"]):
            raise V("chunking-dependent-result", "labels", "cluster assignment depends on the chunking of the stack")
    return {"n": int(X.shape[0]), "D": int(Ac.shape[1])}


# ------------------------------------------------------------------------------------------
def build_loader_world(p):
    from acryo import Molecules, SubtomogramLoader

    rg = np.random.default_rng(p["data_seed"])
    shape = tuple(p["shape"])
    b = p["box"][0]
    n = p["n"]
    tomo = rg.normal(size=shape).astype(np.float32) * 0.05
    cls = rg.integers(0, 2, size=n)
    cls[:2] = [0, 1]
    cls[2:4] = [0, 1]
    # well separated integer positions on a coarse grid
    cell = b + 4
    g = [s // cell for s in shape]
    cells = rg.permutation(g[0] * g[1] * g[2])[:n]
    n = len(cells)
    cls = cls[:n]
    pos_px = np.zeros((n, 3))
    for i, ci in enumerate(cells):
        cz, cy, cx = np.unravel_index(int(ci), g)
        centre = np.array([cz, cy, cx]) * cell + cell // 2
        pos_px[i] = centre
        amp = 1.0 + 0.05 * rg.normal()
        if cls[i] == 0:
            tomo += W.blob(shape, centre, sigma=1.3, amp=amp)
        else:
            tomo += W.blob(shape, centre + np.array([0, 0, 2.0]), sigma=1.0, amp=amp) + W.blob(shape, centre - np.array([0, 0, 2.0]), sigma=1.0, amp=amp)
    st = p["storage"]
    img, _ = W.wrap_storage(tomo, st["kind"], st["chunks"])
    mol = Molecules(pos_px * p["scale"], features={"uid": np.arange(n, dtype=np.int64), "val": rg.normal(size=n), "planted": cls.astype(np.int64)})
    ld = SubtomogramLoader(img, mol, order=p["order"], scale=p["scale"], output_shape=tuple(p["box"]))
    zz, yy, xx = np.indices(p["box"], dtype=np.float32)
    c = (b - 1) / 2
    mask = (((zz - c) ** 2 + (yy - c) ** 2 + (xx - c) ** 2) <= (b / 2) ** 2).astype(np.float32)
    template = (W.blob(tuple(p["box"]), (c, c, c), sigma=1.3)).astype(np.float32)
    return ld, cls, mask, template, tomo


def run_loader(sc, sim, np_seed):
    import dask

    p = sc["loader"]
    W.reset_world(np_seed)
    seed_uuid(sc["uuid_seed"])
    ld, cls, mask, template, tomo = build_loader_world(p)
    before = digest(ld.molecules)
    tsum = digest(tomo)
    with W.knobs_ctx(sc["knobs"]), dask.config.set({"scheduler": sim.get}):
        res = ld.classify(template=template if p["template"] else None, mask=mask if p["mask"] else None, n_components=p["ncomp"], n_clusters=2,
                          tilt=tuple(p["tilt"]) if p["tilt"] else None, seed=p["kseed"], label_name=p["label_name"])
    if digest(ld.molecules) != before or digest(tomo) != tsum:
        raise V("parent-modified", "classify", "classify modified the loader it was called on")
    return ld, res, cls


def check_loader(sc, sim):
    p = sc["loader"]
    ld, res, cls = run_loader(sc, sim, sc["np_seed"])
    new = res.loader
    name = p["label_name"]
    f0, f1 = ld.molecules.features, new.molecules.features
    if f1.columns != f0.columns + [name]:
        raise V("labels-detached", "classify", f"feature columns {f1.columns} != {f0.columns + [name]}")
    if not f1.drop(name).equals(f0):
        raise V("labels-detached", "classify", "classification changed other feature values or their row order")
    if np.abs(np.asarray(new.molecules.pos) - np.asarray(ld.molecules.pos)).max() > 0 or np.abs(np.asarray(new.molecules.quaternion()) - np.asarray(ld.molecules.quaternion())).max() > 1e-7:
        raise V("labels-detached", "classify", "classification changed positions / orientations")
    lab = f1[name]
    if lab.len() != len(cls) or not lab.dtype.is_integer():
        raise V("labels-detached", "classify", f"label column has dtype {lab.dtype} and length {lab.len()}")
    labels = np.asarray(lab.to_list())
    if not same_partition(cls, labels) or len(set(labels.tolist())) != 2:
        raise V("classes-merged", "classify", f"planted classes {cls.tolist()} vs labels {labels.tolist()} (labels not in molecule order, or classes merged)")
    if labels.tolist() != np.asarray(res.classifier.labels).tolist():
        raise V("labels-detached", "classify", "feature column differs from classifier.labels")
    # reference: sequential, other ambient RNG state -> identical labels
    _, ref, _ = run_loader(sc, Sim(mode="sequential"), sc["np_seed_ref"])
    if ref.loader.molecules.features[name].to_list() != labels.tolist():
        raise V("ambient-state-dependent-result", "classify", "labels differ from the sequential reference run under another global np.random state")
    return {"n": int(len(cls)), "D": int(np.prod(p["box"]))}


def execute(sc):
    s = dict(sc["schedule"])
    mode = s.pop("mode", "prng")
    sim = Sim(seed=s.get("seed", 0), mode=mode, workers=s.get("workers", 4), granularity=s.get("granularity", "task"),
              preempt_p=s.get("preempt_p", 0.0), policy=s.get("policy", "uniform"), pct_d=s.get("pct_d", 2), hot_boost=s.get("hot_boost", 0.0),
              preempts=s.get("preempts"), choices=s.get("choices"), faults=s.get("faults"), fault_events=s.get("fault_events"),
              hooks={"caches": W.find_caches()})
    violation = None
    info = {}
    try:
        try:
            info = check_stack(sc, sim) if sc["mode"] == "stack" else check_loader(sc, sim)
        except SimDeadlock as e:
            raise V("deadlock", "scheduler", str(e))
    except V as v:
        violation = {"kind": v.kind, "site": v.site, "detail": v.detail[:600]}
    except Exception as e:  # noqa
        import traceback

        tb = traceback.extract_tb(e.__traceback__)
        inner = [f for f in tb if "/acryo/" in f.filename]
        if not inner:
            raise
        violation = {"kind": "spurious-exception", "site": inner[-1].filename.split("/acryo/")[-1] + ":" + inner[-1].name,
                     "detail": f"{type(e).__name__}: {str(e)[:300]}"}
    if violation is None and sim.race is not None:
        r_ = sim.race
        violation = {"kind": "array-modified-while-task-parked", "site": r_["function"],
                     "detail": f"array `{r_['variable']}` (shape {r_['shape']}) held by {r_['function']}() changed while that task was parked at {r_['parked_at']}: another task wrote into it"}
    st = sim.stats
    res = {
        "ok": violation is None, "violation": violation,
        "stats": dict(st, sites=len(sim.sites), steps=sim.steps, **info),
        "digests": dict(sim.digests()),
        "result_digest": digest([violation["kind"] if violation else "ok"]),
        "nontrivial": bool(st["tasks"] > 0 and violation is None or violation is not None),
        "ops": [sc["mode"] + (":" + sc["stack"]["container"] if sc["mode"] == "stack" else ":" + sc["loader"]["storage"]["kind"])],
    }
    if violation is not None:
        res["trace"] = sim.trace()
    else:
        tr = sim.trace()
        res["trace_head"] = {"preempts": tr["preempts"][:6], "choices": tr["choices"][:8], "n_preempts": len(tr["preempts"]), "n_choices": len(tr["choices"])}
    return res


def to_trace_scenario(sc, outcome):
    sc2 = dict(sc)
    s = dict(sc["schedule"])
    tr = outcome.get("trace") or {}
    s.update(mode="trace", preempts=tr.get("preempts", []), choices=tr.get("choices", []), fault_events=tr.get("fault_events", []))
    s.pop("faults", None)
    sc2["schedule"] = s
    return sc2


def shrink_candidates(sc):
    out = []
    if sc["knobs"].get("chunk_size") or sc["knobs"].get("fuse") is not None:
        s2 = dict(sc)
        s2["knobs"] = {"chunk_size": None, "fuse": None}
        out.append(s2)
    sch = sc["schedule"]
    if sch.get("mode") == "prng" and (sch["workers"] > 1 or sch["preempt_p"] > 0):
        s2 = dict(sc)
        s2["schedule"] = dict(sch, workers=1, preempt_p=0.0, granularity="task", faults={})
        out.append(s2)
    if sc["mode"] == "stack":
        p = sc["stack"]
        if p["container"] != "numpy":
            s2 = dict(sc)
            s2["stack"] = dict(p, container="numpy", chunks=None)
            out.append(s2)
        if p["mask"] != "none":
            s2 = dict(sc)
            s2["stack"] = dict(p, mask="none")
            out.append(s2)
        if p["noise"] > 0:
            s2 = dict(sc)
            s2["stack"] = dict(p, noise=0.0)
            out.append(s2)
    else:
        p = sc["loader"]
        if p["storage"]["kind"] != "numpy":
            s2 = dict(sc)
            s2["loader"] = dict(p, storage={"kind": "numpy", "chunks": None, "style": "numpy"})
            out.append(s2)
        for key in ("mask", "template"):
            if p[key]:
                s2 = dict(sc)
                s2["loader"] = dict(p, **{key: False})
                out.append(s2)
    return out


RULE = ("one evaluation = either a synthetic image stack (prescribed spectrum, planted classes, mask, container and chunking incl. one image per chunk and "
        "image-axis chunks, N and D on both sides of the 500 solver threshold) classified by PcaClassifier, or a tomogram with two planted particle classes "
        "classified through loader.classify; each under one seeded schedule, dask knobs and ambient np.random state, compared with a float64 exact SVD, a "
        "sequential reference under another ambient state and the eager numpy twin; distinct = distinct event-log digest")


def sample_view(sc):
    v = {"mode": sc["mode"], "knobs": sc["knobs"], "schedule": {k: x for k, x in sc["schedule"].items() if k not in ("preempts", "choices", "fault_events")}}
    v["params"] = sc["stack"] if sc["mode"] == "stack" else sc["loader"]
    return v

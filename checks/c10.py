"""C10 - results do not depend on dask scheduling, threading or chunking.

A run = world + 1..3 operations + one seeded schedule (+ faults F1-F8).
Oracles (DESIGN 4.1): bitwise schedule invariance against the sequential reference on the same
graph, no spurious exception, eager-twin (chunking / container) invariance, declared == computed
shape, duplicate-execution equality, fail-stop + clean retry after a read error, inputs untouched.
"""
from __future__ import annotations

import random

import numpy as np

from checks import common as C
from simkit import world as W
from simkit.compare import EPS32, digest, max_abs_diff
from simkit.sched import GRANULARITIES, POLICIES, Sim, SimDeadlock, seed_uuid

PROPERTY = "C10"
BUDGET = {"quick": {"runs": 400, "timeout": 150.0}, "thorough": {"runs": 16000, "timeout": 300.0}}
LEVEL = "exploration"

REDUCTIONS = {"average", "average_split", "fsc", "group_average", "group_average_split"}
PER_MOLECULE = {
    "asnumpy", "load", "load_iter", "construct_dask", "align", "align_multi_templates", "landscape",
    "score", "shared_model", "group_align", "apply", "group_apply", "masked_difference_stack", "cutoff_scan",
}


def gen_schedule(rng: random.Random, fault_class):
    gran = rng.choice(["task", "line", "line", "opcode-some", "opcode-all", "opcode-all"])
    p = rng.choice([0.0, 0.01, 0.05, 0.05, 0.2, 0.5])
    if gran == "task":
        p = 0.0
    if gran.startswith("opcode") and p > 0.2:
        p = 0.1
    faults = {}
    if fault_class == "sched+F10":
        faults["F10"] = rng.choice([0.2, 0.5, 1.0])
    if fault_class == "sched+F6F7":
        if rng.random() < 0.6:
            faults["F6"] = rng.choice([0.05, 0.15])
        if rng.random() < 0.6:
            faults["F7"] = rng.choice([0.05, 0.15])
    return {
        "mode": "prng",
        "seed": rng.randrange(1 << 40),
        "workers": rng.choice([1, 2, 2, 3, 4, 4, 8, 16]),
        "granularity": gran,
        "preempt_p": p,
        "policy": rng.choice(list(POLICIES)),
        "pct_d": rng.randint(1, 3),
        "hot_boost": rng.choice([0.0, 0.3, 0.3, 0.6]),
        "faults": faults,
    }


SWEEP_KINDS = ["align", "align_multi_templates", "score", "landscape", "shared_model", "group_align", "masked_difference_stack", "cutoff_scan"]


def generate(seed: int, tier: str):
    rng = random.Random(seed)
    if tier == "thorough" and seed % 10 < 3:
        # schedule sweep: one of 997 small shared-model scenarios, revisited under many different fine-grained schedules
        wr = random.Random(seed % 997)
        w = C.gen_world(wr, loader="single", max_mol=3, max_box=7, allow_edge=False)
        ops = [C.gen_op(wr, w, kinds=SWEEP_KINDS)]
        sch = gen_schedule(rng, "sched")
        sch.update(workers=rng.choice([2, 2, 3]), granularity=rng.choice(["line", "opcode-some", "opcode-all", "opcode-all"]),
                   preempt_p=rng.choice([0.02, 0.05, 0.1, 0.2]))
        return {"property": PROPERTY, "seed": seed, "world": w, "knobs": W.gen_knobs(wr), "ops": ops, "fault_class": "sched", "schedule": sch,
                "uuid_seed": wr.randrange(1 << 30), "np_seed": wr.randrange(1 << 30), "f8_pick": 0.0, "sweep": seed % 997}
    w = C.gen_world(rng)
    n_ops = rng.choice([1, 1, 2, 2, 3])
    ops = [C.gen_op(rng, w) for _ in range(n_ops)]
    fault_class = rng.choice(["sched", "sched", "sched+F6F7", "sched+F6F7", "F8", "sched+F10"])
    if fault_class == "F8" and not any(s["kind"] == "sim" for s in w["storage"]):
        chunks, style = W.gen_chunks(rng, w["shapes"][0])
        w["storage"][0] = {"kind": "sim", "chunks": chunks, "style": style}
    sc = {
        "property": PROPERTY,
        "seed": seed,
        "world": w,
        "knobs": W.gen_knobs(rng),
        "ops": ops,
        "fault_class": fault_class,
        "schedule": gen_schedule(rng, fault_class),
        "uuid_seed": rng.randrange(1 << 30),
        "np_seed": rng.randrange(1 << 30),
        "f8_pick": rng.random(),
    }
    return sc


# ------------------------------------------------------------------------------------------
def _make_sim(schedule, hooks, pct_horizon=4000):
    s = dict(schedule)
    mode = s.pop("mode", "prng")
    return Sim(
        pct_horizon=pct_horizon,
        seed=s.get("seed", 0), mode=mode, workers=s.get("workers", 4), granularity=s.get("granularity", "line"),
        preempt_p=s.get("preempt_p", 0.05), policy=s.get("policy", "uniform"), pct_d=s.get("pct_d", 2),
        hot_boost=s.get("hot_boost", 0.0),
        preempts=s.get("preempts"), choices=s.get("choices"), faults=s.get("faults"),
        fault_events=s.get("fault_events"), hooks=hooks,
    )


def _execute_ops(sc, world_spec, sim, knobs, fail_reads=None):
    """Build a fresh world and run every op under `sim`.  Returns (world, outcomes)."""
    import dask

    W.reset_world(sc["np_seed"])
    seed_uuid(sc["uuid_seed"])
    world = C.build_world(world_spec, fail_reads=fail_reads)
    before = C.input_checksums(world)
    outs = []
    with W.knobs_ctx(knobs), dask.config.set({"scheduler": sim.get}):
        for op in sc["ops"]:
            outs.append(C.outcome_of(lambda: C.run_op(op, world)))
    after = C.input_checksums(world)
    world.inputs_changed = [k for k in before if before[k] != after[k]]
    return world, outs


ISOLATABLE = {"align", "align_multi_templates", "score", "landscape", "shared_model"}


def _row_of(opname, val, j):
    """Row j of a per-molecule result, as a plain comparable object."""
    try:
        if opname in ("align", "align_multi_templates"):
            m = val.molecules
            feats = m.features
            cols = [c for c in feats.columns if c.startswith("align-") or c in ("score", "labels")]
            return [np.asarray(m.pos)[j], np.asarray(m.quaternion())[j], [feats[c][j] for c in cols]]
        if opname == "score":
            return [np.asarray(a)[j] for a in val]
        if opname == "landscape":
            return np.asarray(val["value"])[j]
        if opname == "shared_model":
            return val[j]
    except Exception:
        return None
    return None


def _run_isolated(sc, world_spec, knobs, op, j):
    import dask

    W.reset_world(sc["np_seed"])
    seed_uuid(sc["uuid_seed"])
    world = C.build_world(world_spec)
    ld = world.loader
    world.loader = ld.replace(molecules=ld.molecules.subset([j]))
    with W.knobs_ctx(knobs), dask.config.set({"scheduler": Sim(mode="sequential").get}):
        return C.outcome_of(lambda: C.run_op(op, world))


def _shape_mismatch(val):
    if isinstance(val, dict) and "declared" in val:
        if list(val["declared"]) != list(val["computed"]):
            return f"declared {val['declared']} != computed {val['computed']}"
        if "task_declared" in val and list(val["task_declared"]) != list(val["task_computed"]):
            return f"task declared {val['task_declared']} != computed {val['task_computed']}"
    return None


def _arrays_of(val):
    """Flatten a result into a list of float arrays for tolerance comparison (None if not comparable)."""
    import polars as pl

    if isinstance(val, np.ndarray):
        return [val]
    if isinstance(val, dict):
        out = []
        for k in val:
            if k in ("declared", "computed", "task_declared", "task_computed", "loader"):
                continue
            a = _arrays_of(val[k])
            if a is None:
                return None
            out += a
        return out
    if isinstance(val, (list, tuple)):
        out = []
        for x in val:
            a = _arrays_of(x)
            if a is None:
                return None
            out += a
        return out
    if isinstance(val, pl.DataFrame):
        return [val.to_numpy().astype(np.float64)]
    if isinstance(val, (int, float, np.floating, np.integer)):
        return [np.asarray(val, dtype=np.float64)]
    return None


def _global_state():
    """Process-wide state that a computation must leave as it found it (otherwise later computations depend on the
    schedule of earlier ones): warning filters, numpy error state, acryo's default backend, dask's scheduler setting."""
    import warnings

    import dask
    from acryo.backend import Backend

    return {"warnings.filters": repr(warnings.filters), "numpy.errstate": repr(sorted(np.geterr().items())),
            "Backend._default": repr(Backend._default), "dask.scheduler": repr(dask.config.get("scheduler", None)),
            "numpy.printoptions": repr(sorted((k, repr(v)) for k, v in np.get_printoptions().items()))}


def _reference_side(sc):
    """Everything that is computed sequentially: the reference on the same layout/knobs, declared shapes, the isolation
    runs and the eager twin.  Runs in its own forked process so that the simulated execution (in the parent) starts
    from pristine process state: caches filled by a reference run in the same process -- including module-level
    caches the simulator does not know about -- would hide cold-path races."""
    violation = None
    notes = []
    w = sc["world"]
    knobs = sc["knobs"]

    # 1. sequential reference: same storage, same knobs, canonical order
    ref_sim = Sim(mode="sequential")
    ref_world, ref = _execute_ops(sc, w, ref_sim, knobs)
    ref_digests = [digest(v) if st == "ok" else None for st, v in ref]
    if ref_world.inputs_changed:
        violation = {"kind": "inputs-modified", "site": ",".join(ref_world.inputs_changed), "detail": "sequential execution modified its inputs"}
    for i, (st, v) in enumerate(ref):
        if st == "exc" and violation is None:
            # the sequential execution itself fails: scenario outside the preconditions -> not judged
            notes.append(f"op{i} {sc['ops'][i]['op']} raises sequentially: {v['type']}: {v['msg'][:120]}")
    generator_defect = bool(notes)

    # 2. declared shape == computed shape (sequential)
    if violation is None:
        for i, (st, v) in enumerate(ref):
            if st == "ok":
                mm = _shape_mismatch(v)
                if mm:
                    violation = {"kind": "declared-shape", "site": sc["ops"][i]["op"], "detail": mm, "op_index": i}
                    break

    # 2b. isolation: a per-molecule result must not depend on which other molecules are computed with it.
    iso_checked = 0
    if violation is None and not generator_defect:
        n_all = sum(w["n_mol"])
        pairs = [(i, j) for i in range(len(sc["ops"])) for j in sorted({n_all - 1, n_all // 2})]
        for i, j in pairs:
            op = sc["ops"][i]
            if violation is not None:
                break
            if op["op"] not in ISOLATABLE or ref[i][0] != "ok":
                continue
            row = _row_of(op["op"], ref[i][1], j)
            if row is None:
                continue
            iso = _run_isolated(sc, w, knobs, op, j)
            if iso[0] != "ok":
                violation = {"kind": "depends-on-other-tasks", "site": op["op"], "detail": f"{op['op']}: molecule {j} alone raises {iso[1]['type']}: {iso[1]['msg'][:150]}", "op_index": i}
                break
            row0 = _row_of(op["op"], iso[1], 0)
            iso_checked += 1
            if digest(row) != digest(row0):
                a, b = _arrays_of(row), _arrays_of(row0)
                d = max((max_abs_diff(x, y) for x, y in zip(a, b)), default=0.0) if a is not None and b is not None and len(a) == len(b) else None
                mag = max((float(np.max(np.abs(x))) for x in (a or []) if np.size(x)), default=1.0)
                if d is not None and d <= 1e-6 * max(1.0, mag):
                    continue  # last-bit differences of vectorised vs scalar pose arithmetic (N rows vs 1 row) are not a dependence
                violation = {"kind": "depends-on-other-tasks", "site": op["op"],
                             "detail": f"{op['op']}: row {j} computed together with the other molecules differs from the same molecule computed alone (max abs diff {d})", "op_index": i}
                break

    # 4. eager twin: numpy tomogram, default knobs, sequential
    twin_checked = 0
    nondefault = any(s["kind"] != "numpy" for s in w["storage"]) or knobs.get("chunk_size") or knobs.get("fuse") is not None
    if violation is None and nondefault and not generator_defect:
        twin_sim = Sim(mode="sequential")
        _, twin = _execute_ops(sc, C.eager_twin_world(w), twin_sim, {})
        for i, ((st_r, v_r), (st_t, v_t)) in enumerate(zip(ref, twin)):
            opname = sc["ops"][i]["op"]
            if st_r != st_t:
                violation = {"kind": "container-dependent-error", "site": opname,
                             "detail": f"{opname}: {st_r} on {w['storage'][0]['kind']} storage but {st_t} on the eager numpy twin", "op_index": i}
                break
            if st_r != "ok":
                continue
            twin_checked += 1
            if digest(v_r) == digest(v_t):
                continue
            bitwise_required = opname in PER_MOLECULE and not w["edge"]
            a_r, a_t = _arrays_of(v_r), _arrays_of(v_t)
            if bitwise_required:
                violation = {"kind": "chunking-dependent-result", "site": opname,
                             "detail": f"{opname}: interior windows must be bitwise equal across layouts", "op_index": i}
                break
            if opname in REDUCTIONS or opname in ("asnumpy", "load", "load_iter", "construct_dask"):
                if a_r is None or a_t is None or len(a_r) != len(a_t):
                    continue
                nmol = sum(w["n_mol"])
                for x, y in zip(a_r, a_t):
                    scale_ = max(float(np.max(np.abs(x))) if x.size else 0.0, float(np.max(np.abs(y))) if y.size else 0.0, 1.0)
                    nterm = max(nmol, int(np.prod(w["box"])) if w["edge"] else nmol)
                    tol = 16 * EPS32 * nterm * scale_
                    dmax = max_abs_diff(x, y)
                    if dmax > tol:
                        violation = {"kind": "chunking-dependent-result", "site": opname,
                                     "detail": f"{opname}: differs from the eager numpy twin by {dmax:.3g} > {tol:.3g}", "op_index": i}
                        break
                if violation:
                    break
            # alignment-level outputs derived from re-associated padding are not compared (DESIGN 4.1)

    return {"violation": violation, "notes": notes, "generator_defect": generator_defect, "ref_digests": ref_digests,
            "ref_status": [st for st, _ in ref], "ref_arrays": [(_arrays_of(v) if st == "ok" else None) for st, v in ref],
            "reads": [(s_.reads if s_ is not None else 0) for s_ in ref_world.stores], "ref_tasks": ref_sim.stats["tasks"],
            "iso_checked": iso_checked, "twin_checked": twin_checked}


def execute(sc):
    """Run one scenario (in a forked child).  Returns a JSON-able outcome."""
    from simkit import runner
    from simkit.compare import deep_equal

    hooks = {"caches": W.find_caches(), "deep_equal": deep_equal}
    w = sc["world"]
    knobs = sc["knobs"]
    R = runner.call_in_fork(_reference_side, sc)
    violation, notes, generator_defect = R["violation"], R["notes"], R["generator_defect"]
    ref_digests = R["ref_digests"]
    iso_checked, twin_checked = R["iso_checked"], R["twin_checked"]

    # 3. simulated execution (this process has not executed any acryo function yet)
    fail_reads = None
    f8 = sc["fault_class"] == "F8"
    if f8:
        # choose the k-th read the operations really perform (counted in the reference execution)
        tot = [(t, n_) for t, n_ in enumerate(R["reads"]) if n_ > 0]
        if tot:
            t, n = tot[int(sc["f8_pick"] * len(tot)) % len(tot)]
            k = int(sc["f8_pick"] * 7919) % n
            fail_reads = {t: [k]}
        else:
            f8 = False
    # PCT change points are drawn over the expected number of trace events (~40 per task, measured)
    sim = _make_sim(sc["schedule"], hooks, pct_horizon=max(200, 40 * R["ref_tasks"]))
    sim_error = None
    g_before = _global_state()
    try:
        sim_world, out = _execute_ops(sc, w, sim, knobs, fail_reads=fail_reads)
    except (SimDeadlock,) as e:
        sim_world, out = None, []
        sim_error = e
    g_after = _global_state()
    delivered_f8 = 0
    if sim_world is not None:
        delivered_f8 = sum(s.failed for s in sim_world.stores if s is not None)
    if violation is None and sim_error is not None:
        violation = {"kind": "deadlock", "site": "scheduler", "detail": str(sim_error)}
    if violation is None and g_before != g_after and not generator_defect:
        changed = [k for k in g_before if g_before[k] != g_after[k]]
        violation = {"kind": "global-state-leaked", "site": ",".join(changed),
                     "detail": f"process-wide state differs after the computation: {changed} (e.g. {str(g_after[changed[0]])[:160]}); later computations in this process depend on it"}
    if violation is None and sim_world is not None and not generator_defect:
        if sim_world.inputs_changed:
            violation = {"kind": "inputs-modified", "site": ",".join(sim_world.inputs_changed), "detail": "simulated execution modified its inputs"}
        if violation is None and sim.dup_mismatch is not None:
            violation = {"kind": "reexecution-differs", "site": sim.dup_mismatch, "detail": "two executions of one task returned different values"}
        for i, (st, v) in enumerate(out):
            if violation is not None:
                break
            opname = sc["ops"][i]["op"]
            if st == "exc":
                if f8 and v["sim_io"]:
                    continue  # fail-stop with the injected error in the cause chain: allowed
                violation = {"kind": "deadlock" if v["type"] == "SimDeadlock" else "spurious-exception", "site": sim.error_site or opname,
                             "detail": f"{opname}: {v['type']}: {v['msg'][:200]}", "op_index": i}
            else:
                d = digest(v)
                if d != ref_digests[i]:
                    arrs_a, arrs_b = _arrays_of(v), R["ref_arrays"][i]
                    diff = None
                    if arrs_a is not None and arrs_b is not None and len(arrs_a) == len(arrs_b):
                        diff = max((max_abs_diff(a, b) for a, b in zip(arrs_a, arrs_b)), default=0.0)
                    violation = {"kind": "schedule-dependent-result", "site": opname,
                                 "detail": f"{opname}: result differs from the sequential reference (max abs diff {diff})", "op_index": i}
        # F8: afterwards the same calls on the same objects, without fault, must equal the reference
        if violation is None and f8 and delivered_f8:
            import dask

            for s in sim_world.stores:
                if s is not None:
                    s.fail_reads = set()
            retry_sim = Sim(mode="sequential")
            with W.knobs_ctx(knobs), dask.config.set({"scheduler": retry_sim.get}):
                for i, op in enumerate(sc["ops"]):
                    st, v = C.outcome_of(lambda: C.run_op(op, sim_world))
                    if st == "exc":
                        violation = {"kind": "poisoned-after-read-error", "site": op["op"], "detail": f"retry raised {v['type']}: {v['msg'][:160]}", "op_index": i}
                        break
                    if digest(v) != ref_digests[i]:
                        violation = {"kind": "poisoned-after-read-error", "site": op["op"], "detail": "retry after a read error differs from the reference", "op_index": i}
                        break

    if violation is None and sim.race is not None:
        r_ = sim.race
        violation = {"kind": "array-modified-while-task-parked", "site": r_["function"],
                     "detail": f"array `{r_['variable']}` (shape {r_['shape']}) held by {r_['function']}() changed while that task was parked at {r_['parked_at']}: another task wrote into it"}
    st = sim.stats
    nontrivial = st["switches"] > 0 or st["cache_clears"] > 0 or st["dup_exec"] > 0 or delivered_f8 > 0 or st["max_inflight"] > 1
    res = {
        "ok": violation is None,
        "violation": violation,
        "notes": notes,
        "generator_defect": generator_defect,
        "stats": dict(st, sites=len(sim.sites), f8_delivered=delivered_f8, twin_ops=twin_checked, iso_ops=iso_checked,
                      storage_reads=sum(s_.reads for s_ in (sim_world.stores if sim_world is not None else []) if s_ is not None),
                      steps=sim.steps, ref_tasks=R["ref_tasks"],
                      padded=int(bool(w["edge"])), n_ops=len(sc["ops"])),
        "digests": dict(sim.digests(), result=digest([d for d in ref_digests])),
        "result_digest": digest([digest(v) if s_ == "ok" else v["type"] for s_, v in out]) if out else None,
        "nontrivial": bool(nontrivial),
        "ops": [o["op"] for o in sc["ops"]],
    }
    if violation is not None:
        res["trace"] = sim.trace()
        res["trace"]["f8"] = fail_reads
    else:
        tr = sim.trace()
        res["trace_head"] = {"preempts": tr["preempts"][:6], "choices": tr["choices"][:8], "n_preempts": len(tr["preempts"]), "n_choices": len(tr["choices"])}
    return res


# ------------------------------------------------------------------------------------------
def to_trace_scenario(sc, outcome):
    """Turn a failing prng scenario + recorded trace into an explicit trace-mode scenario."""
    sc2 = dict(sc)
    s = dict(sc["schedule"])
    tr = outcome.get("trace") or {}
    s.update(mode="trace", preempts=tr.get("preempts", []), choices=tr.get("choices", []), fault_events=tr.get("fault_events", []))
    s.pop("faults", None)
    sc2["schedule"] = s
    return sc2


def shrink_candidates(sc):
    """Simpler scenarios, most aggressive first (each must still be a valid scenario)."""
    out = []
    ops = sc["ops"]
    if len(ops) > 1:
        for i in range(len(ops)):
            s2 = dict(sc)
            s2["ops"] = ops[:i] + ops[i + 1:]
            out.append(s2)
    w = sc["world"]
    if any(st["kind"] != "numpy" for st in w["storage"]) and sc["fault_class"] != "F8":
        s2 = dict(sc)
        s2["world"] = C.eager_twin_world(w)
        out.append(s2)
    if sc["knobs"].get("chunk_size") or sc["knobs"].get("fuse") is not None:
        s2 = dict(sc)
        s2["knobs"] = {"chunk_size": None, "fuse": None}
        out.append(s2)
    if max(w["n_mol"]) > 2:
        s2 = dict(sc)
        w2 = dict(w)
        w2["n_mol"] = [max(2, n // 2) for n in w["n_mol"]]
        s2["world"] = w2
        out.append(s2)
    if w["rot"] != "identity":
        s2 = dict(sc)
        w2 = dict(w)
        w2["rot"] = "identity"
        s2["world"] = w2
        out.append(s2)
    if w["edge"]:
        s2 = dict(sc)
        w2 = dict(w)
        w2["edge"] = False
        s2["world"] = w2
        out.append(s2)
    for i, op in enumerate(ops):
        p = op.get("params")
        if p:
            for key, simple in (("rot", None), ("mask", None), ("cutoff", None), ("tilt", None)):
                if p.get(key) is not None:
                    s2 = dict(sc)
                    ops2 = [dict(o) for o in ops]
                    p2 = dict(p)
                    p2[key] = simple
                    ops2[i]["params"] = p2
                    s2["ops"] = ops2
                    out.append(s2)
    sch = sc["schedule"]
    if sch.get("mode") == "prng":
        if sch.get("faults"):
            s2 = dict(sc)
            s2["schedule"] = dict(sch, faults={})
            out.append(s2)
        if sch["workers"] > 2:
            s2 = dict(sc)
            s2["schedule"] = dict(sch, workers=2)
            out.append(s2)
    return out


KNOWN_FINDING_MATCHERS = {}


def sample_view(sc):
    w = sc["world"]
    return {
        "world": {k: w[k] for k in ("loader", "n_tomo", "shapes", "n_mol", "box", "order", "scale", "corner_safe", "rot", "edge", "batch_order")},
        "storage": [{"kind": s["kind"], "style": s["style"]} for s in w["storage"]],
        "knobs": sc["knobs"], "ops": sc["ops"], "fault_class": sc["fault_class"],
        "schedule": {k: v for k, v in sc["schedule"].items() if k not in ("preempts", "choices", "fault_events")},
    }

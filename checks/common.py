"""Loader worlds and the operation vocabulary shared by the loader-level checks."""
from __future__ import annotations

import math
import random

import numpy as np

from simkit import world as W
from simkit.compare import digest


# ------------------------------------------------------------------------------------------
# world generation (pure functions of a random.Random)
# ------------------------------------------------------------------------------------------
def margin_px(box, order):
    half_diag = math.sqrt(sum(b * b for b in box)) / 2
    return half_diag + order + 2.5


def gen_world(rng: random.Random, *, loader=None, tomo_kind="random", max_mol=10, max_box=9,
              allow_edge=True, storage_kinds=("numpy", "dask", "sim"), scales=(0.5, 1.0, 2.1)):
    cubic = rng.random() < 0.4
    if cubic:
        b = rng.randint(4, max_box)
        box = [b, b, b]
    else:
        box = [rng.randint(4, max_box) for _ in range(3)]
    order = rng.choice([0, 1, 1, 3])
    m = margin_px(box, order)
    loader = loader or rng.choice(["single", "single", "batch"])
    n_tomo = 1 if loader == "single" else rng.randint(2, 3)
    shapes = []
    for _ in range(n_tomo):
        lo = int(math.ceil(2 * m + 6))
        shapes.append([rng.randint(lo, lo + 12) for _ in range(3)])
    n_mol = [rng.randint(2 if n_tomo > 1 else 3, max(3, max_mol // n_tomo)) for _ in range(n_tomo)]
    storage = []
    for t in range(n_tomo):
        kind = rng.choice(list(storage_kinds))
        if kind == "numpy":
            storage.append({"kind": "numpy", "chunks": None, "style": "numpy"})
        else:
            chunks, style = W.gen_chunks(rng, shapes[t])
            storage.append({"kind": kind, "chunks": chunks, "style": style})
    return {
        "n_tomo": n_tomo,
        "shapes": shapes,
        "tomo_kind": tomo_kind,
        "tomo_seed": rng.randrange(1 << 30),
        "n_mol": n_mol,
        "mol_seed": rng.randrange(1 << 30),
        "rot": rng.choice(["identity", "random", "random", "clustered", "clustered"]),
        "edge": bool(allow_edge and rng.random() < 0.3),
        "box": box,
        "order": order,
        "scale": rng.choice(list(scales)),
        "corner_safe": rng.random() < 0.25,
        "loader": loader,
        "batch_order": rng.choice(["contiguous", "interleaved", "shuffled"]),
        "storage": storage,
        "tmpl_seed": rng.randrange(1 << 30),
    }


def eager_twin_world(w):
    w2 = dict(w)
    w2["storage"] = [{"kind": "numpy", "chunks": None, "style": "numpy"} for _ in w["storage"]]
    return w2


class World:
    pass


def build_world(w, fail_reads=None):
    """Construct fresh arrays, storage, molecules and the loader described by `w`."""
    from acryo import BatchLoader, Molecules, SubtomogramLoader
    from scipy.spatial.transform import Rotation
    from scipy import ndimage as ndi

    out = World()
    out.spec = w
    out.tomos, out.images, out.stores, out.mols = [], [], [], []
    uid = 0
    box, order, scale = w["box"], w["order"], w["scale"]
    m = margin_px(box, order)
    for t in range(w["n_tomo"]):
        shape = tuple(w["shapes"][t])
        if w["tomo_kind"] == "pattern":
            arr = W.pattern_tomogram(t + 1, shape)
        else:
            arr = W.random_tomogram(w["tomo_seed"] + t, shape)
        st = w["storage"][t]
        fr = (fail_reads or {}).get(t, ())
        img, store = W.wrap_storage(arr, st["kind"], st["chunks"], fail_reads=fr, name=f"tomo{t}")
        out.tomos.append(arr)
        out.images.append(img)
        out.stores.append(store)
        rg = np.random.default_rng(w["mol_seed"] + 7919 * t)
        n = w["n_mol"][t]
        lo = np.full(3, m)
        hi = np.array(shape) - 1 - m
        pos_px = rg.uniform(lo, hi, size=(n, 3))
        if w["edge"]:
            near = rg.random(n) < 0.5
            edge_px = rg.uniform(0.5, np.array(shape) - 1.5, size=(n, 3))
            # push one coordinate of the "near" molecules close to a face
            ax = rg.integers(0, 3, size=n)
            side = rg.random(n) < 0.5
            for i in range(n):
                if near[i]:
                    p = pos_px[i].copy()
                    p[ax[i]] = rg.uniform(0.5, 3.0) if side[i] else shape[ax[i]] - 1 - rg.uniform(0.5, 3.0)
                    pos_px[i] = p
            del edge_px
        if w["rot"] == "identity":
            rot = Rotation.identity(n)
        elif w["rot"] == "clustered":
            # nearly identical orientations (filaments, lattices): one base rotation, perturbations of 0.002-0.05 degree,
            # and a few exact duplicates
            base = Rotation.random(1, random_state=w["mol_seed"] + 31 * t)
            ang = np.deg2rad(rg.uniform(0.002, 0.05, size=n))
            axes = rg.normal(size=(n, 3))
            axes /= np.linalg.norm(axes, axis=1, keepdims=True)
            ang[rg.random(n) < 0.25] = 0.0
            rot = Rotation.from_rotvec(axes * ang[:, None]) * base[0]
        else:
            rot = Rotation.random(n, random_state=w["mol_seed"] + 31 * t)
        feats = {
            "uid": np.arange(uid, uid + n, dtype=np.int64),
            "g": (np.arange(uid, uid + n) % 2).astype(np.int64),
            "val": rg.normal(size=n),
        }
        uid += n
        out.mols.append(Molecules(pos_px * scale, rot, features=feats))
    kw = dict(order=order, scale=scale, output_shape=tuple(box), corner_safe=w["corner_safe"])
    if w["loader"] == "single":
        out.loader = SubtomogramLoader(out.images[0], out.mols[0], **kw)
    else:
        b = BatchLoader(**kw)
        for img, mol in zip(out.images, out.mols):
            b.add_tomogram(img, mol)
        n_all = b.molecules.count()
        if w["batch_order"] == "interleaved":
            ids = b.molecules.features["image-id"].to_numpy()
            perm = np.argsort(np.concatenate([np.arange((ids == k).sum()) for k in range(w["n_tomo"])]), kind="stable")
            b = b.replace(molecules=b.molecules.subset(perm))
        elif w["batch_order"] == "shuffled":
            perm = np.random.default_rng(w["mol_seed"] + 5).permutation(n_all)
            b = b.replace(molecules=b.molecules.subset(perm))
        out.loader = b
    # templates / mask
    rg = np.random.default_rng(w["tmpl_seed"])
    out.templates = []
    for _ in range(3):
        t_ = ndi.gaussian_filter(rg.normal(size=box), 1.0).astype(np.float32)
        out.templates.append(t_ * 10)
    zz, yy, xx = np.indices(box, dtype=np.float32)
    c = (np.array(box) - 1) / 2
    r2 = ((zz - c[0]) / (box[0] / 2)) ** 2 + ((yy - c[1]) / (box[1] / 2)) ** 2 + ((xx - c[2]) / (box[2] / 2)) ** 2
    out.mask = (r2 <= 1.0).astype(np.float32)
    return out


def input_checksums(world):
    from simkit.compare import array_checksum, digest

    out = {}
    for i, a in enumerate(world.tomos):
        out[f"tomo{i}"] = array_checksum(a)
    for i, t in enumerate(world.templates):
        out[f"tmpl{i}"] = array_checksum(t)
    out["mask"] = array_checksum(world.mask)
    for i, m in enumerate(world.mols):
        out[f"mol{i}"] = digest(m)
    out["loader_mol"] = digest(world.loader.molecules)
    return out


# ------------------------------------------------------------------------------------------
# operations
# ------------------------------------------------------------------------------------------
MODELS = ("ZNCC", "NCC", "PCC", "FSC")


def model_class(name):
    from acryo import alignment as al

    return {"ZNCC": al.ZNCCAlignment, "NCC": al.NCCAlignment, "PCC": al.PCCAlignment, "FSC": al.FSCAlignment}[name]


def gen_model_params(rng: random.Random, allow_fsc=True, allow_rot=True):
    name = rng.choice(MODELS if allow_fsc else MODELS[:3])
    p = {"model": name}
    r = rng.random()
    if not allow_rot or r < 0.55 or name == "FSC":
        p["rot"] = None
    elif r < 0.85:
        p["rot"] = [[10, 10], [0, 0], [0, 0]]
    elif r < 0.88:
        p["rot"] = [[0, 0], [15, 15], [15, 15]]
    else:
        p["rot"] = "list2"
    p["mask"] = rng.choice([None, None, "array", "soft"])
    p["cutoff"] = rng.choice([None, None, 0.3, 0.5])
    p["tilt"] = rng.choice([None, None, [-60, 60], [-60, 60], [-40, 50]])
    if name == "FSC":
        p["max_shifts_px"] = rng.choice([0.0, 1.0, [1.0, 0.0, 1.0]])
    elif name == "PCC":
        # PCC with a zero / sub-pixel range raises on the unchanged tree (outside the claimed properties)
        p["max_shifts_px"] = rng.choice([1.0, 1.5, 2.0, [2.0, 1.0, 1.5], 2.7])
    else:
        p["max_shifts_px"] = rng.choice([0.0, 1.0, 1.5, 2.0, [2.0, 1.0, 1.5], 2.7])
    return p


def _model_kwargs(p):
    from scipy.spatial.transform import Rotation

    kw = {}
    rot = p.get("rot")
    if rot == "list2":
        kw["rotations"] = Rotation.from_euler("zyx", [[0, 0, 0], [20, 0, 0]], degrees=True)
    elif rot is not None:
        kw["rotations"] = tuple(tuple(x) for x in rot)
    if p.get("cutoff") is not None:
        kw["cutoff"] = p["cutoff"]
    if p.get("tilt") is not None:
        kw["tilt"] = tuple(p["tilt"])
    return kw


def _mask_arg(p, world):
    from acryo import pipe

    m = p.get("mask")
    if m is None:
        return None
    if m == "array":
        return world.mask
    if m == "soft":
        return pipe.soft_otsu(sigma=1.0 * world.spec["scale"], radius=1.0 * world.spec["scale"])
    raise ValueError(m)


def _max_shifts_nm(p, world):
    ms = p["max_shifts_px"]
    s = world.spec["scale"]
    if isinstance(ms, (list, tuple)):
        return tuple(float(x) * s for x in ms)
    return float(ms) * s


def centre_voxel(img):
    c = tuple((s - 1) // 2 for s in img.shape)
    return float(img[c])


def img_mean(img):
    return float(np.mean(img))


def img_std(img):
    return float(np.std(img))


APPLY_FUNCS = {"centre_voxel": centre_voxel, "img_mean": img_mean, "img_std": img_std}


def run_op(op, world):
    """Execute one operation on world.loader with the real acryo API; returns a plain result object."""
    import dask.array as da

    ld = world.loader
    kind = op["op"]
    if kind == "asnumpy":
        return ld.asnumpy()
    if kind == "load":
        idx = op["idx"]
        if isinstance(idx, dict):
            idx = slice(idx.get("start"), idx.get("stop"), idx.get("step"))
        return ld.load(idx)
    if kind == "load_iter":
        return list(ld.load_iter())
    if kind == "construct_dask":
        arr = ld.construct_dask()
        val = arr.compute()
        tasks = ld.construct_loading_tasks()
        t0 = tasks[0]
        v0 = t0.compute()
        return {"declared": list(arr.shape), "computed": list(val.shape), "task_declared": list(t0.shape),
                "task_computed": list(v0.shape), "value": val}
    if kind == "average":
        return ld.average()
    if kind == "average_split":
        return ld.average_split(n_set=op["n_set"], seed=op["seed"], squeeze=op.get("squeeze", True))
    if kind == "fsc":
        r = ld.fsc_with_halfmaps(mask=world.mask if op.get("mask") else None, seed=op["seed"], n_set=op["n_set"], dfreq=op.get("dfreq"))
        return {"fsc": r.fsc, "half0": np.asarray(r.halfmaps[0]), "half1": np.asarray(r.halfmaps[1])}
    if kind in ("align", "align_no_template", "align_multi_templates", "landscape", "score", "shared_model", "group_align"):
        p = op["params"]
        Model = model_class(p["model"])
        kw = _model_kwargs(p)
        mask = _mask_arg(p, world)
        ms = _max_shifts_nm(p, world)
        if kind == "align":
            tmpl = world.templates[0] if not op.get("stack") else np.stack(world.templates[: op["stack"]], axis=0)
            return ld.align(tmpl, mask=mask, max_shifts=ms, alignment_model=Model, **kw)
        if kind == "align_no_template":
            m2 = mask if p.get("mask") == "array" else None
            return ld.align_no_template(mask=m2, max_shifts=ms, alignment_model=Model, **kw)
        if kind == "align_multi_templates":
            ms3 = ms if isinstance(ms, tuple) else (ms, ms, ms)  # a scalar is rejected by this entry point on the unchanged tree
            return ld.align_multi_templates(world.templates[: op["n_templates"]], mask=mask, max_shifts=ms3, alignment_model=Model, **kw)
        if kind == "landscape":
            arr = ld.construct_landscape(world.templates[0], mask=mask, max_shifts=ms, alignment_model=Model, upsample=op["upsample"], **kw)
            val = arr.compute()
            return {"declared": list(arr.shape), "computed": list(val.shape), "value": val}
        if kind == "score":
            return ld.score(world.templates[: op["n_templates"]], mask=mask, alignment_model=Model, **kw)
        if kind == "shared_model":
            # one user-held model object shared by every task
            m2 = world.mask if p.get("mask") == "array" else None
            model = Model(world.templates[0], m2, **kw)
            scale = ld.scale
            ms_px = tuple(np.atleast_1d(np.asarray(ms, dtype=float) / scale) * np.ones(3))
            var = dict(quaternion=ld.molecules.quaternion(), pos=ld.molecules.pos / scale)
            fn = op["method"]
            if fn == "align":
                res = ld.construct_mapping_tasks(model.align, max_shifts=ms_px, output_shape=model.input_shape, var_kwarg=var).compute()
                return [(int(r.label), np.asarray(r.shift), np.asarray(r.quat), float(r.score)) for r in res]
            if fn == "score":
                res = ld.construct_mapping_tasks(model.score, output_shape=model.input_shape, var_kwarg=var).compute()
                return [float(x) for x in res]
            if fn == "landscape":
                res = ld.construct_mapping_tasks(model.landscape, max_shifts=ms_px, output_shape=model.input_shape, var_kwarg=var).compute()
                return [np.asarray(x) for x in res]
            if fn == "fit":
                # model.fit mapped over the loader: every task transforms its own image with its own result
                res = ld.construct_mapping_tasks(model.fit, max_shifts=ms_px, output_shape=model.input_shape).compute()
                return [(np.asarray(img), (int(r.label), np.asarray(r.shift), np.asarray(r.quat), float(r.score))) for img, r in res]
            raise ValueError(fn)
        if kind == "group_align":
            ms3 = ms if isinstance(ms, tuple) else (ms, ms, ms)
            out = ld.groupby("g").align(world.templates[0], mask=mask, max_shifts=ms3, alignment_model=Model, **kw)
            return [(k, l) for k, l in out]
    if kind == "cutoff_scan":
        # a parameter scan: several models that differ in their low-pass cutoff are built one after the other (which fills
        # the small memo caches of the filter weights), then the tasks of two of them are computed in one go
        from acryo._dask import compute as acryo_compute

        Model = model_class(op["model"])
        cutoffs = [0.2, 0.25, 0.3, 0.35, 0.4, 0.45][: op["n_cutoffs"]]
        models = [Model(world.templates[0], None, cutoff=c) for c in cutoffs]
        scale = ld.scale
        var = dict(quaternion=ld.molecules.quaternion(), pos=ld.molecules.pos / scale)
        a, b = models[op["pair"][0] % len(models)], models[op["pair"][1] % len(models)]
        if op["method"] == "score":
            ta = ld.construct_mapping_tasks(a.score, output_shape=a.input_shape, var_kwarg=var)
            tb = ld.construct_mapping_tasks(b.score, output_shape=b.input_shape, var_kwarg=var)
            ra, rb = acryo_compute([ta, tb])
            return [[float(x) for x in ra], [float(x) for x in rb]]
        ms_px = (1.0, 1.0, 1.0)
        ta = ld.construct_mapping_tasks(a.align, max_shifts=ms_px, output_shape=a.input_shape, var_kwarg=var)
        tb = ld.construct_mapping_tasks(b.align, max_shifts=ms_px, output_shape=b.input_shape, var_kwarg=var)
        ra, rb = acryo_compute([ta, tb])
        return [[(int(r.label), np.asarray(r.shift), np.asarray(r.quat), float(r.score)) for r in rr] for rr in (ra, rb)]
    if kind == "apply":
        funcs = [APPLY_FUNCS[f] for f in op["funcs"]]
        return ld.apply(funcs)
    if kind == "classify":
        res = ld.classify(template=world.templates[0] if op.get("template") else None, mask=world.mask if op.get("mask") else None,
                          cutoff=op.get("cutoff", 0.5), n_components=2, n_clusters=2, tilt=tuple(op["tilt"]) if op.get("tilt") else None, seed=op.get("seed", 0))
        return {"loader": res.loader, "stack": np.asarray(res.classifier._image.compute())}
    if kind == "masked_difference_stack":
        from acryo.alignment import ZNCCAlignment

        model = ZNCCAlignment(world.templates[0], world.mask if op.get("mask") else None, cutoff=op.get("cutoff", 0.5), tilt=tuple(op["tilt"]) if op.get("tilt") else None)
        shape = tuple(world.spec["box"])
        stack = ld.iter_mapping_tasks(model.masked_difference, output_shape=shape, var_kwarg=dict(quaternion=ld.molecules.quaternion())).tolist().tostack(shape=shape, dtype=np.float32).rechunk(("auto",) + shape)
        val = stack.compute()
        return {"declared": list(stack.shape), "computed": list(val.shape), "value": val}
    if kind == "group_average":
        out = ld.groupby("g").average()
        return dict(out)
    if kind == "group_average_split":
        out = ld.groupby("g").average_split(n_set=op["n_set"], seed=op["seed"])
        return dict(out)
    if kind == "group_apply":
        funcs = [APPLY_FUNCS[f] for f in op["funcs"]]
        out = ld.groupby("g").apply(funcs, schema=list(op["funcs"]))
        return dict(out)
    raise ValueError(f"unknown op {kind}")


def gen_op(rng: random.Random, world_spec, kinds=None):
    kinds = kinds or [
        "asnumpy", "load", "load_iter", "construct_dask", "average", "average_split", "fsc",
        "align", "align", "align", "align_no_template", "align_multi_templates", "align_multi_templates", "landscape", "landscape",
        "score", "score", "score", "shared_model", "shared_model", "shared_model", "group_align", "group_align", "apply", "classify",
        "masked_difference_stack", "masked_difference_stack", "group_average", "group_average_split", "group_apply", "cutoff_scan",
    ]
    kind = rng.choice(kinds)
    n = sum(world_spec["n_mol"])
    op = {"op": kind}
    if kind == "load":
        r = rng.random()
        if r < 0.3:
            op["idx"] = rng.randrange(n)
        elif r < 0.6:
            a = rng.randrange(n)
            op["idx"] = {"start": a, "stop": min(n, a + rng.randint(1, 4)), "step": None}
        else:
            op["idx"] = [rng.randrange(n) for _ in range(rng.randint(1, 4))]
    elif kind in ("average_split", "group_average_split"):
        op["n_set"] = rng.randint(1, 3)
        op["seed"] = rng.randrange(100)
    elif kind == "fsc":
        op["n_set"] = rng.randint(1, 2)
        op["seed"] = rng.randrange(100)
        op["mask"] = rng.random() < 0.5
        op["dfreq"] = rng.choice([None, 0.1])
    elif kind in ("align", "align_no_template", "align_multi_templates", "landscape", "score", "shared_model", "group_align"):
        allow_fsc = kind not in ("landscape",) or True
        p = gen_model_params(rng, allow_fsc=allow_fsc, allow_rot=kind not in ("score",))
        if kind == "score":
            p["rot"] = None
        if kind == "landscape":
            op["upsample"] = rng.choice([1, 1, 2, 3])
            if p["model"] == "FSC":
                p["max_shifts_px"] = rng.choice([0.0, 1.0])
            elif rng.random() < 0.3:
                # search ranges of half the box and more are legal (the landscape is padded)
                p["max_shifts_px"] = rng.choice([3.0, [4.0, 1.0, 2.0], 4.6])
        if kind == "align" and rng.random() < 0.15:
            op["stack"] = 2
        if kind in ("align_multi_templates", "score"):
            op["n_templates"] = rng.randint(1, 3) if kind == "score" else rng.randint(2, 3)
        if kind == "shared_model":
            op["method"] = rng.choice(["align", "score", "landscape", "fit"])
            if op["method"] == "fit" and p["rot"] is None and rng.random() < 0.7 and p["model"] != "FSC":
                p["rot"] = [[10, 10], [0, 0], [0, 0]]
            if p["mask"] == "soft":
                p["mask"] = "array"
            if op["method"] == "landscape" and p["model"] == "FSC":
                p["max_shifts_px"] = 1.0
        if kind == "align_no_template" and p["mask"] == "soft":
            p["mask"] = None
        op["params"] = p
    elif kind == "cutoff_scan":
        op["model"] = rng.choice(["ZNCC", "NCC", "PCC"])
        op["n_cutoffs"] = rng.randint(3, 6)
        op["pair"] = [rng.randrange(6), rng.randrange(6)]
        op["method"] = rng.choice(["score", "align"])
    elif kind in ("apply", "group_apply"):
        k = rng.randint(1, 3)
        op["funcs"] = rng.sample(sorted(APPLY_FUNCS), k)
    elif kind in ("classify", "masked_difference_stack"):
        op["template"] = rng.random() < 0.5
        op["mask"] = rng.random() < 0.5
        op["cutoff"] = rng.choice([0.5, 0.3])
        op["tilt"] = rng.choice([None, [-60, 60]])
        op["seed"] = rng.randrange(10)
    return op


def outcome_of(fn):
    """Run fn(); return ('ok', value) or ('exc', info)."""
    try:
        return ("ok", fn())
    except BaseException as e:  # noqa
        from simkit.world import SimIOError

        chain, cur, n = [], e, 0
        has_io = False
        while cur is not None and n < 10:
            chain.append(type(cur).__name__)
            if isinstance(cur, SimIOError):
                has_io = True
            cur = cur.__cause__ or cur.__context__
            n += 1
        return ("exc", {"type": type(e).__name__, "msg": str(e)[:300], "chain": chain, "sim_io": has_io})

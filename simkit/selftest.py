"""Self-tests of the machinery (not part of any property's verdict).

  ./vcheck selftest determinism [--seeds N] [--props C10,C03,...]
  ./vcheck selftest fidelity    [--seeds N]
  ./vcheck selftest sensitivity [--only id,...] [--runs N]
  ./vcheck selftest reach
"""
from __future__ import annotations

import argparse
import importlib
import json
import os
import subprocess
import sys
import time

from simkit import runner

PROPS = ["C03", "C09", "C10", "C15", "C18", "C20"]


def _collect_one(arg):
    modname, seed = arg
    mod = importlib.import_module(modname)
    sc = mod.generate(seed, "quick")
    res = mod.execute(sc)
    v = res.get("violation")
    return {"seed": seed, "digests": res.get("digests"), "result_digest": res.get("result_digest"), "stats_events": res.get("stats", {}).get("events"),
            "fault_class": sc.get("fault_class"), "vclass": [v["kind"], v.get("site")] if v else None}


def collect(prop, n, lanes):
    runner.boot()
    seeds = [runner.derive_seed("selftest", prop, i) for i in range(n)]
    res = runner.run_many(_collect_one, [(f"checks.{prop.lower()}", s) for s in seeds], lanes=lanes, timeout=300.0)
    return {str(r.get("seed", seeds[i])): r for i, r in enumerate(res)}


def cmd_collect(argv):
    prop, n, lanes = argv[0], int(argv[1]), int(argv[2])
    out = collect(prop, n, lanes)
    sys.stdout.write("COLLECT-JSON " + json.dumps(out) + "\n")
    return 0


def _sub_collect(prop, n, lanes, hashseed):
    env = dict(os.environ)
    env["VERIF_HASHSEED"] = str(hashseed)
    env.pop("PYTHONHASHSEED", None)
    p = subprocess.run([sys.executable, os.path.join(runner.VERIF_DIR, "vcheck"), "selftest", "_collect", prop, str(n), str(lanes)],
                       capture_output=True, text=True, env=env, timeout=3600)
    for line in p.stdout.splitlines():
        if line.startswith("COLLECT-JSON "):
            return json.loads(line[len("COLLECT-JSON "):])
    raise RuntimeError(f"collect failed for {prop}: {p.stderr[-800:]}")


def cmd_determinism(argv):
    ap = argparse.ArgumentParser()
    ap.add_argument("--seeds", type=int, default=200)
    ap.add_argument("--props", default=",".join(PROPS))
    a = ap.parse_args(argv)
    bad = 0
    report = {}
    for prop in a.props.split(","):
        t0 = time.monotonic()
        base = _sub_collect(prop, a.seeds, 16, 0)
        # strict = every digest (event log, interleaving, task order, result) must agree.
        # Under another PYTHONHASHSEED dask's key tokens change (observed for reshape/rechunk graphs), hence the canonical
        # task order and the event log; ./vcheck pins PYTHONHASHSEED=0 by re-exec, so replay never meets that.  There only
        # the verdict and the result digest must agree.
        variants = {"again, fresh interpreter (16 lanes, PYTHONHASHSEED=0)": (True, _sub_collect(prop, a.seeds, 16, 0)),
                    "5 lanes, PYTHONHASHSEED=0": (True, _sub_collect(prop, a.seeds, 5, 0)),
                    "11 lanes, PYTHONHASHSEED=12345 (verdict + result digest only)": (False, _sub_collect(prop, a.seeds, 11, 12345))}
        nb = 0

        def proj(r, strict):
            if r is None or strict:
                return r
            # F8 runs (one injected storage read error): which read is the k-th depends on the task order, so under other
            # dask tokens another operation may be the one that fails with SimIOError; only the verdict is comparable there
            rd = None if r.get("fault_class") == "F8" else r.get("result_digest")
            return {"result_digest": rd, "vclass": r.get("vclass"), "harness_error": r.get("harness_error")}

        for name, (strict, other) in variants.items():
            diff = [s for s in base if json.dumps(proj(base[s], strict), sort_keys=True) != json.dumps(proj(other.get(s), strict), sort_keys=True)]
            harness = [s for s in base if "harness_error" in (base[s] or {}) or "harness_error" in (other.get(s) or {})]
            print(f"determinism {prop}: {name}: {len(base) - len(diff)}/{len(base)} identical (event, interleaving, task-order and result digests), harness errors {len(harness)}")
            for s in diff[:3]:
                print("   differs:", s, json.dumps(base[s])[:300], "VS", json.dumps(other.get(s))[:300])
            nb += len(diff)
        report[prop] = {"seeds": len(base), "differing": nb, "wall_s": round(time.monotonic() - t0, 1)}
        bad += nb
    os.makedirs(os.path.join(runner.VERIF_DIR, "selftest_reports"), exist_ok=True)
    with open(os.path.join(runner.VERIF_DIR, "selftest_reports", "determinism.json"), "w") as f:
        json.dump(report, f, indent=1)
    print("determinism:", "OK" if bad == 0 else f"FAILED ({bad} differing runs)")
    return 0 if bad == 0 else 1


# ------------------------------------------------------------------------------------------
def _fidelity_one(arg):
    """One C10 scenario executed under dask's real schedulers and under the sequential SimScheduler."""
    import dask

    from checks import c10, common as C
    from simkit import world as W
    from simkit.compare import digest
    from simkit.sched import Sim, seed_uuid

    seed = arg
    sc = c10.generate(seed, "quick")
    out = {}
    for name, cfg in (("sim-sequential", None), ("dask-synchronous", {"scheduler": "synchronous"}), ("dask-threads", {"scheduler": "threads", "num_workers": 4})):
        W.reset_world(sc["np_seed"])
        seed_uuid(sc["uuid_seed"])
        world = C.build_world(sc["world"])
        if cfg is None:
            cfg = {"scheduler": Sim(mode="sequential").get}
        digs = []
        with W.knobs_ctx(sc["knobs"]), dask.config.set(cfg):
            for op in sc["ops"]:
                st, v = C.outcome_of(lambda: C.run_op(op, world))
                digs.append(digest(v) if st == "ok" else "exc:" + v["type"])
        out[name] = digs
    return {"seed": seed, "ops": [o["op"] for o in sc["ops"]], "out": out, "equal": out["sim-sequential"] == out["dask-synchronous"] == out["dask-threads"]}


def cmd_fidelity(argv):
    ap = argparse.ArgumentParser()
    ap.add_argument("--seeds", type=int, default=200)
    a = ap.parse_args(argv)
    runner.boot()
    seeds = [runner.derive_seed("fidelity", i) for i in range(a.seeds)]
    res = runner.run_many(_fidelity_one, seeds, lanes=16, timeout=300.0)
    bad = [r for r in res if not r.get("equal")]
    print(f"fidelity: {len(res) - len(bad)}/{len(res)} scenarios give bit-identical results under SimScheduler(sequential), dask synchronous and dask threads(4)")
    for r in bad[:5]:
        print("  differs:", json.dumps(r)[:600])
    os.makedirs(os.path.join(runner.VERIF_DIR, "selftest_reports"), exist_ok=True)
    with open(os.path.join(runner.VERIF_DIR, "selftest_reports", "fidelity.json"), "w") as f:
        json.dump({"scenarios": len(res), "differing": len(bad)}, f, indent=1)
    return 0 if not bad else 1


# ------------------------------------------------------------------------------------------
def cmd_sensitivity(argv):
    """Apply every seeded change to a scratch copy of /repo and run the check(s) that should catch it."""
    ap = argparse.ArgumentParser()
    ap.add_argument("--only", default="")
    ap.add_argument("--runs", type=int, default=0)
    a = ap.parse_args(argv)
    seeded = os.path.join(runner.VERIF_DIR, "seeded")
    extra = os.path.join(runner.VERIF_DIR, "seeded_extra")
    scratch = "/var/tmp/acryo-verif-sens"
    rows = []
    ids = sorted(d for d in os.listdir(seeded) if os.path.isdir(os.path.join(seeded, d))) + sorted(d for d in os.listdir(extra) if os.path.isdir(os.path.join(extra, d)))
    if a.only:
        ids = [i for i in ids if i in a.only.split(",")]
    subprocess.run(["git", "-C", "/repo", "worktree", "remove", "--force", scratch], capture_output=True)
    subprocess.run(["git", "-C", "/repo", "worktree", "add", "-q", "--detach", scratch, "HEAD"], check=True)
    try:
        for mid in ids:
            base = seeded if os.path.isdir(os.path.join(seeded, mid)) else extra
            meta = json.load(open(os.path.join(base, mid, "meta.json")))
            patch = os.path.join(base, mid, "patch.diff")
            subprocess.run(["git", "-C", scratch, "checkout", "-q", "--", "."], check=True)
            ap_ = subprocess.run(["git", "-C", scratch, "apply", "--recount", patch], capture_output=True, text=True)
            if ap_.returncode != 0:
                rows.append((mid, meta.get("property"), "PATCH-DOES-NOT-APPLY", ""))
                continue
            if meta.get("detected_by") == []:
                rows.append((mid, meta.get("property"), "DOCUMENTED-NOT-CAUGHT: " + meta.get("not_caught", "")[:160], "not run"))
                continue
            for prop in meta.get("detected_by") or [meta["property"]]:
                env = dict(os.environ, ACRYO_SRC=scratch)
                cmd = [os.path.join(runner.VERIF_DIR, "vcheck"), prop, "--tier", "quick", "--no-evidence", "--no-shrink", "--replay-dir", "/var/tmp/acryo-verif-sens-replays"]
                if a.runs:
                    cmd += ["--runs", str(a.runs)]
                t0 = time.monotonic()
                p = subprocess.run(cmd, capture_output=True, text=True, env=env, timeout=7200)
                viol = [l for l in p.stdout.splitlines() if l.startswith("VIOLATION")]
                summ = [l for l in p.stdout.splitlines() if l.startswith(prop + " ")]
                if meta.get("expect") == "pass":
                    outcome = "CAUGHT(negative control stayed silent)" if p.returncode == 0 else f"MISSED(negative control raised an alarm, rc={p.returncode})"
                else:
                    outcome = "CAUGHT" if p.returncode == 1 and viol else f"MISSED(rc={p.returncode})"
                rows.append((mid, prop, outcome, (summ[-1] if summ else "")[:160] + f" [{time.monotonic() - t0:.0f}s]"))
                print(rows[-1], flush=True)
    finally:
        subprocess.run(["git", "-C", "/repo", "worktree", "remove", "--force", scratch], capture_output=True)
        subprocess.run(["rm", "-rf", "/var/tmp/acryo-verif-sens-replays"])
    os.makedirs(os.path.join(runner.VERIF_DIR, "selftest_reports"), exist_ok=True)
    rep = os.path.join(runner.VERIF_DIR, "selftest_reports", "sensitivity.json")
    new_rows = [{"id": r[0], "check": r[1], "outcome": r[2], "summary": r[3]} for r in rows]
    if a.only and os.path.exists(rep):
        # a partial run replaces only its own rows of the stored table
        done = {(r["id"], r["check"]) for r in new_rows}
        new_rows = sorted([r for r in json.load(open(rep)) if (r["id"], r["check"]) not in done] + new_rows, key=lambda r: (not r["id"].startswith("S"), r["id"], r["check"] or ""))
    with open(rep, "w") as f:
        json.dump(new_rows, f, indent=1)
    ran = [r for r in rows if not r[2].startswith("DOCUMENTED-NOT-CAUGHT")]
    missed = [r for r in ran if not r[2].startswith("CAUGHT")]
    print(f"sensitivity: {len(ran) - len(missed)}/{len(ran)} (change, check) pairs caught; {len(rows) - len(ran)} documented as not caught (not run)")
    return 0 if not missed else 1


def cmd_reach(argv):
    """Every probe / fault kind the design relies on must have fired at least once in the committed quick evidence."""
    need = {
        "C10": {"fault_kinds_fired_runs": ["F1_concurrent_runs", "F2_preemption_runs", "F6_cache_clear_runs", "F7_reexecution_runs", "F8_read_error_runs", "F10_process_boundary_runs"],
                "probes": ["twin_ops", "iso_ops", "padded", "hot_events", "storage_reads", "sites"]},
        "C03": {"fault_kinds_fired_runs": ["F1_concurrent_runs", "F2_preemption_runs"], "probes": ["history_steps", "sites"]},
        "C09": {"fault_kinds_fired_runs": ["F1_concurrent_runs", "F2_preemption_runs", "F7_reexecution_runs"], "probes": ["splits_decoded"]},
        "C15": {"fault_kinds_fired_runs": ["F1_concurrent_runs", "F2_preemption_runs"], "probes": ["binned_loaders"]},
        "C18": {"fault_kinds_fired_runs": ["F1_concurrent_runs"], "probes": []},
        "C20": {"fault_kinds_fired_runs": ["F1_concurrent_runs", "F2_preemption_runs"], "probes": ["layouts", "particles"]},
    }
    bad = 0
    for prop, req in need.items():
        path = os.path.join(runner.VERIF_DIR, "evidence", f"{prop}.json")
        cov = json.load(open(path))["coverage"]
        for group, keys in req.items():
            for k in keys:
                v = cov.get(group, {}).get(k, 0)
                if not v:
                    bad += 1
                    print(f"reach {prop}: {group}.{k} is zero")
        print(f"reach {prop}: evaluations={cov['evaluations']} distinct_interleavings={cov['distinct_interleavings']} distinct_task_orders={cov['distinct_task_orders']}")
    print("reach:", "OK" if not bad else f"FAILED ({bad} probes at zero)")
    return 0 if not bad else 1


def main(argv):
    if not argv:
        print(__doc__)
        return 2
    cmd, rest = argv[0], argv[1:]
    if cmd == "_collect":
        return cmd_collect(rest)
    if cmd == "determinism":
        return cmd_determinism(rest)
    if cmd == "fidelity":
        return cmd_fidelity(rest)
    if cmd == "sensitivity":
        return cmd_sensitivity(rest)
    if cmd == "reach":
        return cmd_reach(rest)
    print(__doc__)
    return 2

"""World building blocks shared by the checks: tomograms, storage seams, knobs, caches."""
from __future__ import annotations

import contextlib
import random
import sys

import numpy as np


class SimIOError(OSError):
    """Injected transient read error (fault F8)."""


class SimStorage:
    """A memmap-like tomogram store: every chunk read goes through __getitem__.

    It is *not* an ndarray, so dask's from_array reads it chunk by chunk through this
    method (exactly as it does for the np.memmap that acryo's readers return)."""

    def __init__(self, arr, name="tomo", fail_reads=()):
        self._arr = arr
        self._arr.setflags(write=False)
        self.shape = arr.shape
        self.dtype = arr.dtype
        self.ndim = arr.ndim
        self.name = name
        self.reads = 0
        self.fail_reads = set(fail_reads)  # read ordinals (0-based) that raise
        self.failed = 0
        self.read_log = []

    def __getitem__(self, idx):
        n = self.reads
        self.reads += 1
        if len(self.read_log) < 4096:
            self.read_log.append(_idx_repr(idx))
        if n in self.fail_reads:
            self.failed += 1
            raise SimIOError(f"injected read error on {self.name} read #{n}")
        out = self._arr[idx]
        return out  # read-only view, like a memmap opened with mode="r"

    def __len__(self):
        return self.shape[0]

    def __repr__(self):
        # stable across a pickle round trip (fault F10) so that two executions of a task that returns the store compare equal
        return f"SimStorage({self.name}, shape={self.shape}, dtype={self.dtype})"


def _idx_repr(idx):
    if not isinstance(idx, tuple):
        idx = (idx,)
    out = []
    for s in idx:
        if isinstance(s, slice):
            out.append((s.start, s.stop))
        else:
            out.append(repr(s))
    return out


# ------------------------------------------------------------------------------------------
def gen_chunks(rng: random.Random, shape, style=None):
    """Per-axis chunk tuples.  style: 'single' | 'regular' | 'irregular' | 'tiny'."""
    style = style or rng.choice(["single", "single", "regular", "regular", "regular", "irregular", "irregular", "tiny"])
    out = []
    tiny_axes = rng.sample(range(len(shape)), rng.randint(1, 2)) if style == "tiny" else ()
    for ax, s in enumerate(shape):
        if style == "single":
            out.append((s,))
        elif style == "regular" or (style == "tiny" and ax not in tiny_axes):
            c = rng.randint(max(3, s // 4), s)
            out.append(_regular(s, c))
        elif style == "tiny":
            c = rng.randint(2, 6)
            out.append(_regular(s, c))
        else:
            parts = []
            left = s
            while left > 0:
                c = min(left, rng.randint(max(2, s // 8), max(3, s // 2)))
                parts.append(c)
                left -= c
            out.append(tuple(parts))
    return [list(c) for c in out], style


def _regular(s, c):
    n, r = divmod(s, c)
    return tuple([c] * n + ([r] if r else []))


def wrap_storage(arr, kind, chunks=None, fail_reads=(), name="tomo"):
    """Return (image accepted by acryo, SimStorage or None)."""
    import dask.array as da

    if kind == "numpy":
        return arr, None
    tchunks = tuple(tuple(c) for c in chunks) if chunks is not None else "auto"
    if kind == "dask":
        return da.from_array(arr, chunks=tchunks), None
    if kind == "sim":
        from acryo._reader import as_dask

        store = SimStorage(arr, name=name, fail_reads=fail_reads)
        return as_dask(store, chunks=tchunks), store
    raise ValueError(kind)


@contextlib.contextmanager
def knobs_ctx(knobs):
    import dask

    cfg = {}
    if knobs:
        if knobs.get("chunk_size"):
            cfg["array.chunk-size"] = knobs["chunk_size"]
        if "fuse" in knobs and knobs["fuse"] is not None:
            cfg["optimization.fuse.active"] = bool(knobs["fuse"])
    with dask.config.set(cfg):
        yield


CHUNK_SIZES = ["1KiB", "4KiB", "16KiB", "256KiB", "8MiB", "128MiB"]


def gen_knobs(rng: random.Random):
    return {
        "chunk_size": rng.choice(CHUNK_SIZES + [None, None]),
        "fuse": rng.choice([None, None, True, False]),
    }


# ------------------------------------------------------------------------------------------
def find_caches():
    """Every functools.lru_cache object defined in acryo (name -> object), in sorted order."""
    out = {}
    for modname in sorted(sys.modules):
        if not (modname == "acryo" or modname.startswith("acryo.")):
            continue
        mod = sys.modules[modname]
        if mod is None:
            continue
        for nm in sorted(vars(mod)):
            obj = vars(mod)[nm]
            if hasattr(obj, "cache_clear") and hasattr(obj, "cache_info"):
                defmod = getattr(obj, "__module__", modname) or modname
                if defmod.startswith("acryo") and "testing" not in defmod:
                    out[f"{defmod}.{getattr(obj, '__name__', nm)}"] = obj
    return out


def reset_world(np_seed=12345):
    """Bring process-global acryo state to a known value between two executions."""
    import acryo.backend._api as api

    for c in find_caches().values():
        c.cache_clear()
    api.Backend._default = "numpy"
    np.random.seed(np_seed % (2**32))
    random.seed(np_seed)


# ------------------------------------------------------------------------------------------
def pattern_tomogram(t, shape):
    """Attribution pattern: value = t*1e6 + z*1e4 + y*1e2 + x (exact in float32)."""
    z, y, x = np.indices(shape, dtype=np.float64)
    return (t * 1e6 + z * 1e4 + y * 1e2 + x).astype(np.float32)


def pattern_value(t, zyx):
    z, y, x = zyx
    return t * 1e6 + z * 1e4 + y * 1e2 + x


def random_tomogram(seed, shape, dtype=np.float32):
    rng = np.random.default_rng(seed)
    return rng.normal(size=shape).astype(dtype)


def blob(shape, center, sigma=1.5, amp=1.0):
    zz, yy, xx = np.indices(shape, dtype=np.float32)
    r2 = (zz - center[0]) ** 2 + (yy - center[1]) ** 2 + (xx - center[2]) ** 2
    return (amp * np.exp(-r2 / (2 * sigma**2))).astype(np.float32)


def random_rotations(seed, n, kind="random"):
    from scipy.spatial.transform import Rotation

    if kind == "identity":
        return Rotation.identity(n)
    return Rotation.random(n, random_state=seed)

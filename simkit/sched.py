"""SimScheduler: a deterministic, seeded dask scheduler with baton-passing worker threads.

One ``Sim`` object = one simulated execution.  It is installed with
``dask.config.set({"scheduler": sim.get})``; every ``compute()`` issued by acryo then runs
its graph on real worker threads of which exactly one runs at any time.  Who runs next, and
where a running task is pre-empted (sys.settrace line / opcode events inside acryo frames),
is decided either by a PRNG (mode "prng") or by a recorded decision trace (mode "trace").

Nothing in this file reads a clock or draws from the PRNG on a logging path.
"""
from __future__ import annotations

import hashlib
import os
import random
import sys
import threading
import traceback
import uuid
from collections.abc import Mapping

_real_allocate_lock = threading.Lock
_real_RLock = threading.RLock

ACRYO_PREFIX = None  # set by install()
_CURRENT_SIM = None  # the Sim whose get() is active in this process (one at a time)
_OPFLAG = False


def _switch_capable_opcodes():
    """Opcodes after which CPython 3.12 can hand the GIL to another thread: the eval-breaker checks (calls, RESUME,
    JUMP_BACKWARD) and every instruction that may run code outside the eval loop (operators on arrays release the GIL,
    attribute loads may run descriptors, iteration, imports, with-blocks, returns into a caller's call site).
    Plain loads/stores of locals, constants, globals and instance attributes, stack shuffles, tuple building and forward
    jumps are not: two adjacent `self.a = x; self.b = y` stores cannot be separated by a thread switch."""
    import dis

    names = set()
    for nm in dis.opmap:
        if nm.startswith(("CALL", "BINARY_", "UNARY_", "COMPARE_", "CONTAINS_", "IMPORT_", "RETURN_", "UNPACK_", "YIELD_", "FOR_ITER", "GET_",
                          "LOAD_ATTR", "LOAD_SUPER_ATTR", "LOAD_METHOD", "LOAD_NAME", "DELETE_SUBSCR", "DELETE_ATTR", "STORE_SUBSCR", "STORE_SLICE",
                          "LIST_EXTEND", "SET_UPDATE", "DICT_UPDATE", "DICT_MERGE", "FORMAT_", "BEFORE_", "WITH_", "SEND", "RESUME", "JUMP_BACKWARD",
                          "INSTRUMENTED_", "END_SEND", "CLEANUP_THROW", "RAISE_", "RERAISE", "CHECK_", "MATCH_", "LOAD_BUILD_CLASS", "SETUP_ANNOTATIONS")):
            names.add(nm)
    names.discard("JUMP_BACKWARD_NO_INTERRUPT")
    return frozenset(dis.opmap[n] for n in names)


_SWITCH_CAPABLE = _switch_capable_opcodes()


class SimDeadlock(RuntimeError):
    pass


class SimStepLimit(RuntimeError):
    pass


# --------------------------------------------------------------------------------------
# locks created by acryo code become SimLocks (a worker that would block yields instead)
# --------------------------------------------------------------------------------------
class SimLock:
    def __init__(self, reentrant=False):
        self._inner = _real_allocate_lock()
        self._reentrant = reentrant
        self._owner = None
        self._count = 0

    def locked(self):
        return self._inner.locked()

    def _me(self):
        return threading.get_ident()

    def acquire(self, blocking=True, timeout=-1):
        me = self._me()
        if self._reentrant and self._owner == me:
            self._count += 1
            return True
        sim = _CURRENT_SIM
        w = sim.current if sim is not None else None
        if w is None or w.thread.ident != me:
            ok = self._inner.acquire(blocking, timeout)
        else:
            while True:
                ok = self._inner.acquire(False)
                if ok or not blocking:
                    break
                sim.stats["lock_blocks"] += 1
                w.blocked_on = self
                sim._ev("B", w.task_ord)
                w.yield_to_director()
                w.blocked_on = None
        if ok:
            self._owner = me
            self._count = 1
        return ok

    def release(self):
        if self._reentrant and self._count > 1:
            self._count -= 1
            return
        self._owner = None
        self._count = 0
        self._inner.release()

    __enter__ = acquire

    def __exit__(self, *a):
        self.release()


def _lock_factory():
    f = sys._getframe(1)
    if ACRYO_PREFIX and f.f_code.co_filename.startswith(ACRYO_PREFIX):
        return SimLock(False)
    return _real_allocate_lock()


def _rlock_factory(*a, **k):
    f = sys._getframe(1)
    if ACRYO_PREFIX and f.f_code.co_filename.startswith(ACRYO_PREFIX):
        return SimLock(True)
    return _real_RLock(*a, **k)


HOT_LINES = {}  # filename -> set of line numbers that write state reachable from several tasks

_MUTATORS = {"append", "extend", "insert", "pop", "popitem", "clear", "update", "setdefault", "remove", "add", "discard", "sort", "reverse", "fill", "put", "resize"}


def scan_hot_lines(prefix: str):
    """AST scan of the acryo sources: statements outside __init__ that assign to (or call a mutating
    method on) `self.<attr>` / `cls.<attr>` / a module global.  These are the places where a
    pre-emption is most likely to expose a race, so the simulator pre-empts there more often
    (nothing else is assumed about them)."""
    import ast

    hot = {}
    for root, _dirs, files in os.walk(prefix):
        for fn in sorted(files):
            if not fn.endswith(".py"):
                continue
            path = os.path.join(root, fn)
            try:
                tree = ast.parse(open(path).read())
            except Exception:
                continue
            # module-level names bound to a mutable container ({} [] set() dict() OrderedDict() defaultdict() ...)
            module_names = set()
            for n in tree.body:
                if isinstance(n, (ast.Assign, ast.AnnAssign)) and n.value is not None:
                    v = n.value
                    mutable = isinstance(v, (ast.Dict, ast.List, ast.Set)) or (
                        isinstance(v, ast.Call) and isinstance(v.func, (ast.Name, ast.Attribute))
                        and (v.func.id if isinstance(v.func, ast.Name) else v.func.attr) in ("dict", "list", "set", "OrderedDict", "defaultdict", "deque", "WeakValueDictionary"))
                    if mutable:
                        for t in (n.targets if isinstance(n, ast.Assign) else [n.target]):
                            if isinstance(t, ast.Name):
                                module_names.add(t.id)
            # every module-level variable (for subscript stores into module-level arrays / buffers from inside functions)
            module_vars = {t.id for n in tree.body if isinstance(n, (ast.Assign, ast.AnnAssign)) and n.value is not None
                           for t in (n.targets if isinstance(n, ast.Assign) else [n.target]) if isinstance(t, ast.Name)}
            # names bound by module-level imports (for `with mod.ctx():` — a process-wide context such as
            # warnings.catch_warnings / np.errstate / dask.config.set is entered and later left)
            imported = set()
            for n in tree.body:
                if isinstance(n, (ast.Import, ast.ImportFrom)):
                    for al in n.names:
                        imported.add((al.asname or al.name).split(".")[0])
            lines = set()

            def is_shared(node):
                top = node
                while isinstance(node, (ast.Subscript, ast.Attribute)):
                    if isinstance(node, ast.Attribute) and isinstance(node.value, ast.Name) and node.value.id in ("self", "cls"):
                        return True
                    node = node.value
                # a module-level container: only when it is subscripted / method-called, not when a local shadows it by plain assignment
                return isinstance(node, ast.Name) and node.id in module_names and node is not top

            for fdef in ast.walk(tree):
                if not isinstance(fdef, (ast.FunctionDef, ast.AsyncFunctionDef)) or fdef.name in ("__init__", "__new__"):
                    continue
                declared_global = {nm for n in ast.walk(fdef) if isinstance(n, ast.Global) for nm in n.names}
                local_names = {a.arg for a in fdef.args.args + fdef.args.kwonlyargs + fdef.args.posonlyargs}
                for n in ast.walk(fdef):
                    if isinstance(n, (ast.Assign, ast.AugAssign, ast.AnnAssign, ast.For, ast.With, ast.NamedExpr)):
                        tg = n.targets if isinstance(n, ast.Assign) else [getattr(n, "target", None)] if not isinstance(n, ast.With) else [i.optional_vars for i in n.items]
                        for t in tg:
                            for tt in (t.elts if isinstance(t, (ast.Tuple, ast.List)) else [t]):
                                if isinstance(tt, ast.Name):
                                    local_names.add(tt.id)
                for n in ast.walk(fdef):
                    if isinstance(n, ast.With):
                        for it in n.items:
                            c = it.context_expr
                            if isinstance(c, ast.Call):
                                f = c.func
                                while isinstance(f, ast.Attribute):
                                    f = f.value
                                if isinstance(f, ast.Name) and f.id in imported and f.id not in local_names:
                                    lines.add(n.lineno)
                # an explicit iterator over a shared container (iter(X), X = self.<attr>, a module-level container, or its
                # .values() / .items() / .keys()): another task may resize it before the iterator is advanced.  (for-loops and
                # comprehensions over self.<attr> are not included: on this code base they are almost all graph construction
                # on the calling thread and would only dilute the boost.)
                def shared_iterable(x):
                    if isinstance(x, ast.Call) and isinstance(x.func, ast.Attribute) and x.func.attr in ("values", "items", "keys") and not x.args:
                        x = x.func.value
                    if isinstance(x, ast.Name):
                        return x.id in module_names and x.id not in local_names
                    return isinstance(x, (ast.Attribute, ast.Subscript)) and is_shared(x)

                for n in ast.walk(fdef):
                    its = []
                    if isinstance(n, ast.Call) and isinstance(n.func, ast.Name) and n.func.id == "iter" and n.args:
                        its.append(n.args[0])
                    if any(shared_iterable(x) for x in its):
                        lines.add(n.lineno)
                # locals that are plain aliases of a module-level variable:  x = MODVAR  (x bound nowhere else in the function)
                bound = {}
                for n in ast.walk(fdef):
                    if isinstance(n, ast.Assign):
                        for t in n.targets:
                            if isinstance(t, ast.Name):
                                bound.setdefault(t.id, []).append(n.value)
                aliases = {nm for nm, vals in bound.items()
                           if len(vals) == 1 and isinstance(vals[0], ast.Name) and vals[0].id in module_vars
                           and vals[0].id not in local_names and nm not in {a.arg for a in fdef.args.args + fdef.args.kwonlyargs + fdef.args.posonlyargs}}
                for n in ast.walk(fdef):
                    # NAME[...] = value  /  NAME[...] op= value  where NAME is a module-level variable not shadowed locally
                    # (or a local alias of one)
                    tg = n.targets if isinstance(n, ast.Assign) else [n.target] if isinstance(n, ast.AugAssign) else []
                    for t in tg:
                        base = t
                        while isinstance(base, ast.Subscript):
                            base = base.value
                        if base is not t and isinstance(base, ast.Name) and (
                                (base.id in module_vars and base.id not in local_names) or base.id in aliases):
                            lines.add(n.lineno)
                for n in ast.walk(fdef):
                    targets = []
                    if isinstance(n, ast.Assign):
                        targets = n.targets
                    elif isinstance(n, (ast.AugAssign, ast.AnnAssign)):
                        targets = [n.target]
                    elif isinstance(n, ast.NamedExpr):
                        targets = []
                    elif isinstance(n, ast.Expr) and isinstance(n.value, ast.Call) and isinstance(n.value.func, ast.Attribute):
                        fv = n.value.func.value
                        if n.value.func.attr in _MUTATORS and (is_shared(fv) or (isinstance(fv, ast.Name) and fv.id in module_names)):
                            lines.add(n.lineno)
                    if isinstance(n, (ast.Assign, ast.AnnAssign)) and isinstance(getattr(n, "value", None), ast.Call) and isinstance(n.value.func, ast.Attribute):
                        fv = n.value.func.value
                        if n.value.func.attr in _MUTATORS and (is_shared(fv) or (isinstance(fv, ast.Name) and fv.id in module_names)):
                            lines.add(n.lineno)
                    for t in targets:
                        for tt in (t.elts if isinstance(t, (ast.Tuple, ast.List)) else [t]):
                            if is_shared(tt) or (isinstance(tt, ast.Name) and tt.id in declared_global):
                                lines.add(n.lineno)
                                if getattr(n, "end_lineno", n.lineno) != n.lineno:
                                    lines.add(n.end_lineno)
            if lines:
                hot[path] = lines
    return hot


# --------------------------------------------------------------------------------------
# thread pools / threads created by acryo code run as simulated jobs (never as uncontrolled real threads)
# --------------------------------------------------------------------------------------
import concurrent.futures as _cf

_RealTPE = _cf.ThreadPoolExecutor
_RealThread = threading.Thread


class SimFuture:
    def __init__(self, fn, args, kwargs):
        self.fn, self.args, self.kwargs = fn, args, kwargs
        self._done = False
        self.value = None
        self.exc = None
        self.seq = -1
        self._callbacks = []

    # the director asks blocked_on.locked(): "is the thing this worker waits for still unavailable?"
    def locked(self):
        return not self._done

    def done(self):
        return self._done

    def cancel(self):
        return False

    def cancelled(self):
        return False

    def running(self):
        return not self._done

    def _finish(self, ok, val):
        if ok:
            self.value = val
        else:
            self.exc = val
        self._done = True
        for cb in self._callbacks:
            cb(self)

    def add_done_callback(self, cb):
        if self._done:
            cb(self)
        else:
            self._callbacks.append(cb)

    def _run_inline(self):
        sim = _CURRENT_SIM
        if sim is not None and self in sim.jobs:
            sim.jobs.remove(self)
        try:
            self._finish(True, self.fn(*self.args, **self.kwargs))
        except BaseException as e:  # noqa
            self._finish(False, e)

    def _wait(self):
        sim = _CURRENT_SIM
        w = sim.current if sim is not None else None
        if not self._done:
            if w is None or w.thread.ident != threading.get_ident():
                self._run_inline()  # not inside a simulated task (graph construction, sequential reference)
            else:
                while not self._done:
                    w.blocked_on = self
                    sim._ev("W", w.task_ord, self.seq)
                    w.yield_to_director()
                    w.blocked_on = None

    def result(self, timeout=None):
        self._wait()
        if self.exc is not None:
            raise self.exc
        return self.value

    def exception(self, timeout=None):
        self._wait()
        return self.exc


def _submit_job(fn, args, kwargs):
    fut = SimFuture(fn, args, kwargs)
    sim = _CURRENT_SIM
    w = sim.current if sim is not None else None
    if sim is None or sim.mode == "sequential" or w is None or w.thread.ident != threading.get_ident():
        fut._run_inline()
    else:
        sim.job_seq += 1
        fut.seq = sim.job_seq
        sim.jobs.append(fut)
        sim.stats["pool_jobs"] += 1
        sim._ev("J", w.task_ord, fut.seq)
    return fut


class SimExecutor:
    """Stand-in for concurrent.futures.ThreadPoolExecutor created by acryo code: every submitted callable becomes one
    more schedulable (and pre-emptible) job of the simulation, run on an extra baton-passing worker."""

    def __init__(self, max_workers=None, thread_name_prefix="", initializer=None, initargs=()):
        self._futs = []
        self._initializer, self._initargs = initializer, initargs

    def submit(self, fn, /, *args, **kwargs):
        f = _submit_job(fn, args, kwargs)
        self._futs.append(f)
        return f

    def map(self, fn, *iterables, timeout=None, chunksize=1):
        futs = [self.submit(fn, *a) for a in zip(*iterables)]

        def gen():
            for f in futs:
                yield f.result()

        return gen()

    def shutdown(self, wait=True, cancel_futures=False):
        if wait:
            for f in self._futs:
                f._wait()

    def __enter__(self):
        return self

    def __exit__(self, *a):
        self.shutdown(wait=True)
        return False


class _TPEFactory:
    def __new__(cls, *a, **k):
        f = sys._getframe(1)
        if ACRYO_PREFIX and f.f_code.co_filename.startswith(ACRYO_PREFIX):
            return SimExecutor(*a, **k)
        return _RealTPE(*a, **k)


class SimThread:
    def __init__(self, group=None, target=None, name=None, args=(), kwargs=None, daemon=None):
        self._target, self._args, self._kwargs = target, args, kwargs or {}
        self.name = name or "simthread"
        self.daemon = bool(daemon)
        self._fut = None

    def start(self):
        self._fut = _submit_job(self._target or (lambda: None), tuple(self._args), dict(self._kwargs))

    def join(self, timeout=None):
        if self._fut is not None:
            self._fut._wait()

    def is_alive(self):
        return self._fut is not None and not self._fut.done()


class _ThreadFactory:
    def __new__(cls, *a, **k):
        f = sys._getframe(1)
        if ACRYO_PREFIX and f.f_code.co_filename.startswith(ACRYO_PREFIX):
            return SimThread(*a, **k)
        return _RealThread(*a, **k)


def _as_completed(fs, timeout=None):
    fs = list(fs)
    if fs and all(isinstance(f, SimFuture) for f in fs):
        for f in fs:
            f._wait()
            yield f
    else:
        yield from _real_as_completed(fs, timeout)


_real_as_completed = _cf.as_completed


def install(acryo_prefix: str):
    """Called once in the zygote *before* acryo is imported."""
    global ACRYO_PREFIX, HOT_LINES
    ACRYO_PREFIX = acryo_prefix.rstrip("/") + "/"
    threading.Lock = _lock_factory
    threading.RLock = _rlock_factory
    _cf.ThreadPoolExecutor = _TPEFactory
    _cf.thread.ThreadPoolExecutor = _TPEFactory
    _cf.as_completed = _as_completed
    threading.Thread = _ThreadFactory
    HOT_LINES = scan_hot_lines(ACRYO_PREFIX)


def enable_opcode_flag_once():
    """CPython 3.12: flip the interpreter-wide opcode-tracing flag exactly once, before any
    worker thread calls sys.settrace (see DESIGN 3.2)."""
    global _OPFLAG
    if not _OPFLAG:
        _OPFLAG = True
        sys._getframe().f_trace_opcodes = True


class SeededUUID:
    def __init__(self, seed):
        self.rng = random.Random((seed * 2654435761 + 0x5EED) & 0xFFFFFFFFFFFF)

    def uuid4(self):
        return uuid.UUID(int=self.rng.getrandbits(128), version=4)


def seed_uuid(seed):
    su = SeededUUID(seed)
    uuid.uuid4 = su.uuid4
    return su


# --------------------------------------------------------------------------------------
class Worker:
    def __init__(self, sim, idx):
        self.sim = sim
        self.idx = idx
        self.sem = threading.Semaphore(0)
        self.job = None
        self.result = None
        self.state = "idle"  # idle | running | done
        self.alive = True
        self.blocked_on = None
        self.task_ord = -1
        self.get_no = -1
        self.k = 0
        self.site = None
        self.ghost_of = None
        self.key = None
        self.pending = False
        self.prev_op = None
        self.serialised = False
        self.stall = False
        self.thread = _RealThread(target=self._main, name=f"simw-{idx}", daemon=True)
        self.thread.start()

    def _main(self):
        sim = self.sim
        if sim.granularity != "task":
            sys.settrace(sim._global_trace)
        while True:
            self.sem.acquire()
            if not self.alive:
                return
            key, node, data = self.job
            sim.current = self
            try:
                res = (True, node(data))
            except BaseException as e:  # noqa
                res = (False, e)
                sim._note_error_site(e)
            self.result = res
            self.state = "done"
            sim.current = None
            sim.director_sem.release()

    def yield_to_director(self):
        sim = self.sim
        sim.current = None
        sim.director_sem.release()
        self.sem.acquire()
        sim.current = self


POLICIES = ("uniform", "start-first", "resume-first", "lifo", "starve", "pct", "stall")
STALL_BUCKETS = 32
GRANULARITIES = ("task", "line", "opcode-some", "opcode-all")


class Sim:
    """One simulated execution (possibly many dask get() calls)."""

    def __init__(
        self,
        seed=0,
        mode="prng",
        workers=4,
        granularity="line",
        preempt_p=0.05,
        policy="uniform",
        pct_d=2,
        pct_horizon=4000,
        hot_boost=0.0,
        watch_arrays=True,
        preempts=None,
        choices=None,
        faults=None,
        fault_events=None,
        max_steps=2_000_000,
        hooks=None,
    ):
        assert mode in ("prng", "trace", "sequential")
        self.mode = mode
        self.seed = seed
        self.rng = random.Random(seed)
        self.n_workers = 1 if mode == "sequential" else max(1, int(workers))
        self.granularity = "task" if mode == "sequential" else granularity
        if policy == "stall" and mode == "prng" and self.granularity == "task":
            self.granularity = "line"  # stalling needs trace events
        self.preempt_p = 0.0 if mode == "sequential" else preempt_p
        self.policy = policy
        self.pct_d = pct_d
        self.hot_boost = hot_boost
        self._last_hot = None
        self._hot_left = {}
        self._decide_op = {}
        self.watch_arrays = watch_arrays
        self.race = None
        self.jobs = []  # callables submitted by acryo code to a thread pool / started as threads, not yet started
        self.job_seq = 0
        self.xworkers = []  # extra workers that run those jobs (a pool has its own threads)
        # policy "stall": a slow node.  Every task that reaches a line of one per-run chosen family of acryo functions
        # (hash of the function name) is parked there -- at the next point where a thread switch is possible -- and is
        # not resumed as long as anything else can run.
        self.stall_bucket = self.rng.randrange(STALL_BUCKETS) if (policy == "stall" and mode == "prng") else None
        self._stall_of = {}
        self.script_preempts = set(map(tuple, preempts or ()))
        self.script_choices = [tuple(c) for c in (choices or ())]
        self.choice_i = 0
        # fault configuration (prng mode): {"F6": p, "F7": p}; trace mode: explicit events
        self.faults = dict(faults or {})
        self.script_faults = {}
        for fe in fault_events or ():
            self.script_faults.setdefault((fe["get"], fe["task"]), []).append(fe)
        self.hooks = hooks or {}
        self.max_steps = max_steps
        self.rec_preempts = []
        self.rec_choices = []
        self.rec_faults = []
        self.director_sem = threading.Semaphore(0)
        self.workers = []
        self.current = None
        self.get_no = 0
        self.log = hashlib.sha256()
        self.sched_log = hashlib.sha256()
        self.order_log = hashlib.sha256()
        self.error_site = None
        self.steps = 0
        self.opcode_salt = seed & 0xFFFF
        self.stats = dict(
            gets=0, nested_gets=0, tasks=0, events=0, switches=0, max_inflight=0,
            lock_blocks=0, cache_clears=0, cache_clears_inflight=0, dup_exec=0,
            cache_get_overlap=0, resumes=0, hot_events=0, serialised_tasks=0, stalls=0, arrays_watched=0, held_array_changed=0, pool_jobs=0,
        )
        self.sites = set()
        self.dup_mismatch = None
        # PCT state
        self._pct_prio = {}
        self._pct_change = []
        if policy == "pct" and mode == "prng":
            self._pct_change = sorted(self.rng.randrange(1, pct_horizon) for _ in range(max(0, pct_d - 1)))
        if self.granularity != "task":
            enable_opcode_flag_once()

    # ---------------- tracing ----------------
    def _global_trace(self, frame, event, arg):
        if event != "call":
            return None
        code = frame.f_code
        if not code.co_filename.startswith(ACRYO_PREFIX):
            return None
        # opcode events are always on inside acryo frames: a pre-emption that has been *decided* is *taken* at the next
        # boundary at which CPython can really switch threads (see _SWITCH_CAPABLE); the granularity only says where
        # pre-emptions may be decided
        frame.f_trace_opcodes = True
        if code not in self._decide_op:
            g = self.granularity
            if g == "opcode-all":
                d = True
            elif g == "opcode-some":
                h = (hash_str(code.co_filename[len(ACRYO_PREFIX):] + ":" + code.co_name) ^ self.opcode_salt) % 10
                d = h < 4 or code.co_filename in HOT_LINES
            else:
                d = False
            self._decide_op[code] = d
        return self._local_trace

    def _local_trace(self, frame, event, arg):
        is_op = event == "opcode"
        if event == "return" and self.hot_boost and self.mode == "prng":
            # a task that has just obtained a value from a function of a file that writes shared state (cache lookups live
            # there) is parked right after the return -- holding what it fetched -- and stalled while the others run on
            code = frame.f_code
            if code.co_filename in HOT_LINES:
                w = self.current
                if w is not None and w.thread.ident == threading.get_ident() and self.rng.random() < self.hot_boost * 0.5:
                    w.pending = True
                    w.stall = True
                    self.stats["stalls"] += 1
            return self._local_trace
        if is_op or event == "line":
            w = self.current
            if w is not None and w.thread.ident == threading.get_ident():
                self.stats["events"] += 1
                w.k += 1
                code = frame.f_code
                prev = w.prev_op
                if is_op:
                    w.prev_op = code.co_code[frame.f_lasti]
                if self.mode == "trace":
                    do = (w.get_no, w.task_ord, w.k) in self.script_preempts
                else:
                    if not is_op or self._decide_op.get(code, False):
                        hot_now = False
                        p = self.preempt_p
                        if p > 0 and self.hot_boost:
                            hl = HOT_LINES.get(code.co_filename)
                            if hl is not None:
                                # at a statement that writes shared state, and for the next few decision points of the same
                                # task (the window in which a half-finished update is visible to other tasks)
                                if frame.f_lineno in hl:
                                    self._hot_left[w.idx] = 8
                                left = self._hot_left.get(w.idx, 0)
                                if left > 0:
                                    self._hot_left[w.idx] = left - 1
                                    p = max(p, self.hot_boost)
                                    self.stats["hot_events"] += 1
                                    hot_now = True
                        if p > 0 and self.rng.random() < p:
                            w.pending = True
                            if hot_now:
                                # a task caught in the middle of an update of shared state stays parked while the others
                                # run on (they get to see the half-finished update)
                                w.stall = True
                        if self.stall_bucket is not None and not is_op:
                            sb = self._stall_of.get(code)
                            if sb is None:
                                sb = self._stall_of[code] = hash_str(code.co_name) % STALL_BUCKETS
                            if sb == self.stall_bucket and self.rng.random() < 0.5:
                                w.pending = True
                                w.stall = True
                                self.stats["stalls"] += 1
                        if self.policy == "pct" and self._pct_change and self.stats["events"] >= self._pct_change[0]:
                            # PCT priority change point: demote the running worker and yield
                            self._pct_change.pop(0)
                            self._pct_prio[w.idx] = -len(self._pct_change) - 1
                            w.pending = True
                    # take a decided pre-emption only where the interpreter can switch: right after an instruction
                    # that can call out of the eval loop (calls, returns, loops, operators, attribute loads, iteration)
                    do = w.pending and is_op and (prev is None or prev in _SWITCH_CAPABLE)
                if do:
                    w.pending = False
                    site = (code.co_name, frame.f_lineno, frame.f_lasti if is_op else -1)
                    w.site = site
                    self.sites.add(site)
                    self.rec_preempts.append((w.get_no, w.task_ord, w.k))
                    self.stats["switches"] += 1
                    self._ev("P", w.task_ord, site)
                    self.sched_log.update(repr((w.task_ord, site)).encode())
                    self._probe_overlap()
                    held = self._held_arrays(frame) if self.watch_arrays else None
                    w.yield_to_director()
                    if held:
                        self._check_held(held, site, w)
        return self._local_trace

    # -- invariant: no array referenced by a parked task changes while it is parked --------------------------
    def _held_arrays(self, frame):
        import zlib

        import numpy as np

        out = []
        seen = set()
        f = frame
        depth = 0
        while f is not None and depth < 8:
            if f.f_code.co_filename.startswith(ACRYO_PREFIX):
                for name, v in list(f.f_locals.items()):
                    vals = v if isinstance(v, (list, tuple)) and len(v) <= 8 else (v,)
                    for x in vals:
                        if isinstance(x, np.ndarray) and 0 < x.size <= 1_000_000 and x.dtype != object and id(x) not in seen:
                            seen.add(id(x))
                            try:
                                out.append((f.f_code.co_name, name, x, zlib.adler32(np.ascontiguousarray(x).view(np.uint8))))
                            except Exception:
                                pass
            f = f.f_back
            depth += 1
        self.stats["arrays_watched"] += len(out)
        return out

    def _check_held(self, held, site, w):
        import zlib

        import numpy as np

        for fn, name, x, c0 in held:
            try:
                c1 = zlib.adler32(np.ascontiguousarray(x).view(np.uint8))
            except Exception:
                continue
            if c1 != c0:
                self.stats["held_array_changed"] += 1
                if self.race is None:
                    self.race = {"function": fn, "variable": name, "parked_at": list(site), "task": w.task_ord, "shape": list(x.shape)}

    def _probe_overlap(self):
        n = 0
        for w in self.workers:
            if w.state == "running" and w.site is not None and w.site[0] in ("get", "_get_template_and_mask_input", "set"):
                n += 1
        if n >= 2:
            self.stats["cache_get_overlap"] += 1

    def _ev(self, *a):
        self.log.update(repr(a).encode())

    def _note_error_site(self, exc):
        tb = exc.__traceback__
        site = None
        while tb is not None:
            fn = tb.tb_frame.f_code.co_filename
            if fn.startswith(ACRYO_PREFIX):
                site = f"{fn[len(ACRYO_PREFIX):]}:{tb.tb_frame.f_code.co_name}"
            tb = tb.tb_next
        if self.error_site is None:
            self.error_site = site

    # ---------------- scheduler ----------------
    def get(self, dsk, keys, **kwargs):
        global _CURRENT_SIM
        from dask._task_spec import convert_legacy_graph
        from dask.utils import ensure_dict

        if not isinstance(dsk, Mapping):
            dsk = dsk.__dask_graph__()
        dsk = convert_legacy_graph(ensure_dict(dsk))
        cur = threading.current_thread()
        if cur.name.startswith("simw-"):
            self.stats["nested_gets"] += 1
            return self._get_inline(dsk, keys)
        _CURRENT_SIM = self
        self.get_no += 1
        self.stats["gets"] += 1
        gno = self.get_no
        if self.mode == "sequential":
            return self._get_sequential(dsk, keys)
        order = {k: i for i, k in enumerate(sorted(dsk, key=_keystr))}
        deps = {k: set(dsk[k].dependencies) & set(dsk) for k in dsk}
        dependents = {k: [] for k in dsk}
        for k in sorted(deps, key=order.get):
            for d in deps[k]:
                dependents[d].append(k)
        waiting = {k: set(ds) for k, ds in deps.items()}
        cache = {}
        ready = sorted([k for k, ds in waiting.items() if not ds], key=order.get)
        self._ev("G", gno, len(dsk))
        while len(self.workers) < self.n_workers:
            self.workers.append(Worker(self, len(self.workers)))
        running = {}
        ghosts = []  # list of (key, node, data) waiting for duplicate execution
        ghost_results = {}
        ndone = 0
        ntotal = len(dsk)
        rr = 0
        while ndone < ntotal or ghosts or self.jobs or any(w.state == "running" for w in self.workers + self.xworkers):
            self.steps += 1
            if self.steps > self.max_steps:
                raise SimStepLimit(f"more than {self.max_steps} scheduler steps")
            acts = []
            for w in self.workers + self.xworkers:
                if w.state == "running":
                    if w.blocked_on is None or not w.blocked_on.locked():
                        acts.append(("resume", w, None))
            for job in self.jobs:
                acts.append(("job", None, job))
            idle = [w for w in self.workers if w.state == "idle"]
            if idle:
                if self.mode == "prng" and len(ready) > 32:
                    # window: the 16 oldest and the 16 newest ready tasks (keeps a step O(1))
                    for k in ready[:16]:
                        acts.append(("start", None, k))
                    for k in ready[-16:]:
                        acts.append(("start", None, k))
                else:
                    for k in ready:
                        acts.append(("start", None, k))
                for gi, g in enumerate(ghosts):
                    acts.append(("ghost", None, gi))
            if not acts:
                if any(w.state == "running" for w in self.workers + self.xworkers):
                    self._abort_workers()
                    raise SimDeadlock("all unfinished tasks are blocked on locks")
                raise SimDeadlock("no runnable action but work remains")

            def desc(a):
                if a[0] == "job":
                    return ("job", gno, a[2].seq)
                if a[0] == "start":
                    return ("start", gno, order[a[2]])
                if a[0] == "ghost":
                    return ("ghost", gno, order[ghosts[a[2]][0]])
                return ("resume", gno, a[1].task_ord)

            ci = self._choose(acts, desc, idle)
            kind, w, k = acts[ci]
            d = desc(acts[ci])
            self.rec_choices.append(d)
            if kind == "job":
                job = k
                self.jobs.remove(job)
                xidle = [x for x in self.xworkers if x.state == "idle"]
                if xidle:
                    w = xidle[0]
                else:
                    w = Worker(self, 1000 + len(self.xworkers))
                    self.xworkers.append(w)
                w.ghost_of = None
                w.serialised = False
                w.job = (("job", job.seq), (lambda _d, j=job: j.fn(*j.args, **j.kwargs)), None)
                w.key = ("job", job.seq)
                w.task_ord = 10_000_000 + job.seq
                w.get_no = gno
                w.k = 0
                w.pending = False
                w.stall = False
                w.prev_op = None
                w.site = None
                w.state = "running"
                running[w] = job
                self._ev("S", "job", job.seq)
                self.order_log.update(repr((gno, "job", job.seq)).encode())
            elif kind in ("start", "ghost"):
                w = idle[0]
                if kind == "start":
                    ready.remove(k)
                    data = {dd: cache[dd] for dd in deps[k]}
                    node = dsk[k]
                    w.ghost_of = None
                    self.stats["tasks"] += 1
                    # F10: the task crosses a process boundary (as under dask's "processes" / distributed schedulers):
                    # function, arguments and (below) the result go through a cloudpickle round trip
                    w.serialised = self._fault_ser(gno, order[k])
                    if w.serialised:
                        try:
                            node, data = _roundtrip((node, data))
                        except BaseException as e:  # noqa
                            self._drain()
                            raise RuntimeError(f"task cannot be sent to another process: {type(e).__name__}: {e}") from e
                    # F7: schedule a duplicate execution of this task
                    if self._fault_dup(gno, order[k]):
                        ghosts.append((k, node, data))
                else:
                    k, node, data = ghosts.pop(k)
                    w.ghost_of = k
                    w.serialised = False
                    self.stats["dup_exec"] += 1
                w.job = (k, node, data)
                w.key = k
                w.task_ord = order[k] if kind == "start" else order[k] + ntotal
                w.get_no = gno
                w.k = 0
                w.pending = False
                w.stall = False
                w.prev_op = None
                w.site = None
                w.state = "running"
                running[w] = k
                self._ev("S", kind, order[k])
                self.order_log.update(repr((gno, kind, order[k])).encode())
            else:
                self.stats["resumes"] += 1
                self._ev("R", w.task_ord)
            inflight = sum(1 for x in self.workers if x.state == "running")
            if inflight > self.stats["max_inflight"]:
                self.stats["max_inflight"] = inflight
            w.sem.release()
            self.director_sem.acquire()
            if w.state != "done":
                # the task was pre-empted (or blocked): an lru_cache may evict at any instant, not only between tasks
                self._fault_at_preempt(gno, w)
            if w.state == "done" and isinstance(running.get(w), SimFuture):
                job = running.pop(w)
                ok, val = w.result
                w.state = "idle"
                w.result = None
                w.job = None
                self._ev("D", "job", job.seq, ok)
                job._finish(ok, val)  # an exception is delivered to whoever asks for the result
                continue
            if w.state == "done":
                k = running.pop(w)
                ok, val = w.result
                is_ghost = w.ghost_of is not None
                w.state = "idle"
                w.result = None
                w.job = None
                self._ev("D", order[k], ok, is_ghost)
                if not ok:
                    self._drain()
                    raise val
                if getattr(w, "serialised", False) and not is_ghost:
                    try:
                        val = _roundtrip(val)
                    except BaseException as e:  # noqa
                        self._drain()
                        raise RuntimeError(f"task result cannot be sent back from another process: {type(e).__name__}: {e}") from e
                if is_ghost:
                    ghost_results[k] = val
                    if k in cache:
                        self._compare_dup(k, cache[k], val)
                else:
                    cache[k] = val
                    if k in ghost_results:
                        self._compare_dup(k, val, ghost_results[k])
                    ndone += 1
                    newly = []
                    for dd in dependents[k]:
                        waiting[dd].discard(k)
                        if not waiting[dd] and dd not in cache:
                            newly.append(dd)
                    ready.extend(sorted(newly, key=order.get))
                    self._fault_after_task(gno, order[k])
        return _nested_get(keys, cache)

    # -- choices -------------------------------------------------------------------
    def _choose(self, acts, desc, idle):
        if self.mode != "prng":
            ch = self.script_choices
            while self.choice_i < len(ch):
                want = ch[self.choice_i]
                self.choice_i += 1
                for j, a in enumerate(acts):
                    if desc(a) == want:
                        return j
            # canonical fallback: resume lowest task first, else start lowest ready, else ghost
            rank = {"resume": 0, "start": 1, "ghost": 2, "job": 1}
            return min(range(len(acts)), key=lambda j: (rank[acts[j][0]], desc(acts[j])[2]))
        rng = self.rng
        pol = self.policy
        n = len(acts)
        if any(a[0] == "resume" and a[1].stall for a in acts):
            # stalled tasks are resumed only when nothing else can run (whatever the policy)
            free = [j for j, a in enumerate(acts) if not (a[0] == "resume" and a[1].stall)]
            if free:
                if pol in ("uniform", "stall") or len(free) == 1:
                    return free[rng.randrange(len(free))]
                sub = [acts[j] for j in free]
                return free[self._choose_among(sub, idle)]
            j = rng.randrange(n)
            acts[j][1].stall = False
            return j
        return self._choose_among(acts, idle)

    def _choose_among(self, acts, idle):
        rng = self.rng
        pol = self.policy
        n = len(acts)
        if pol in ("uniform", "stall") or n == 1:
            return rng.randrange(n)
        starts = [j for j, a in enumerate(acts) if a[0] != "resume"]
        resumes = [j for j, a in enumerate(acts) if a[0] == "resume"]
        if pol == "start-first":
            pool = starts or resumes
            return pool[rng.randrange(len(pool))]
        if pol == "resume-first":
            pool = resumes or starts
            return pool[rng.randrange(len(pool))]
        if pol == "lifo":
            if starts and rng.random() < 0.6:
                return starts[-1]
            return rng.randrange(n)
        if pol == "starve":
            # the parked task with the lowest canonical index is resumed only when nothing else can run
            if resumes:
                victim = min(resumes, key=lambda j: acts[j][1].task_ord)
                others = [j for j in range(n) if j != victim]
                if others:
                    return others[rng.randrange(len(others))]
            return rng.randrange(n)
        if pol == "pct":
            prio = self._pct_prio
            best = None
            for j, a in enumerate(acts):
                widx = a[1].idx if a[0] == "resume" else (idle[0].idx if idle else 999)
                if widx not in prio:
                    prio[widx] = rng.random() + 1.0
                p = prio[widx]
                # among the start actions of the same idle worker pick one at random
                key = (p, rng.random())
                if best is None or key > best[0]:
                    best = (key, j)
            return best[1]
        return rng.randrange(n)

    # -- faults --------------------------------------------------------------------
    def _fault_dup(self, gno, tord):
        if self.mode == "prng":
            p = self.faults.get("F7", 0.0)
            if p and self.rng.random() < p:
                self.rec_faults.append({"kind": "F7", "get": gno, "task": tord})
                self._ev("F7", gno, tord)
                return True
            return False
        for fe in self.script_faults.get((gno, tord), ()):
            if fe["kind"] == "F7":
                self.rec_faults.append(dict(fe))
                self._ev("F7", gno, tord)
                return True
        return False

    def _fault_ser(self, gno, tord):
        if self.mode == "prng":
            p = self.faults.get("F10", 0.0)
            if p and self.rng.random() < p:
                self.rec_faults.append({"kind": "F10", "get": gno, "task": tord})
                self.stats["serialised_tasks"] += 1
                self._ev("F10", gno, tord)
                return True
            return False
        for fe in self.script_faults.get((gno, tord), ()):
            if fe["kind"] == "F10":
                self.rec_faults.append(dict(fe))
                self.stats["serialised_tasks"] += 1
                self._ev("F10", gno, tord)
                return True
        return False

    def _fault_after_task(self, gno, tord):
        caches = self.hooks.get("caches")
        if not caches:
            return
        names = None
        if self.mode == "prng":
            p = self.faults.get("F6", 0.0)
            inflight = any(w.state == "running" for w in self.workers)
            if p and self.rng.random() < (p * 3 if inflight else p):
                allnames = sorted(caches)
                names = [nm for nm in allnames if self.rng.random() < 0.5] or [allnames[self.rng.randrange(len(allnames))]]
        else:
            for fe in self.script_faults.get((gno, tord), ()):
                if fe["kind"] == "F6":
                    names = list(fe["caches"])
        if names:
            for nm in names:
                if nm in caches:
                    caches[nm].cache_clear()
            self.stats["cache_clears"] += 1
            if any(w.state == "running" for w in self.workers):
                self.stats["cache_clears_inflight"] += 1
            self.rec_faults.append({"kind": "F6", "get": gno, "task": tord, "caches": names})
            self._ev("F6", gno, tord, tuple(names))

    def _fault_at_preempt(self, gno, w):
        caches = self.hooks.get("caches")
        if not caches:
            return
        names = None
        if self.mode == "prng":
            p = self.faults.get("F6", 0.0)
            if p and self.rng.random() < p * 0.25:
                allnames = sorted(caches)
                names = [nm for nm in allnames if self.rng.random() < 0.5] or [allnames[self.rng.randrange(len(allnames))]]
        else:
            for fe in self.script_faults.get((gno, w.task_ord), ()):
                if fe["kind"] == "F6p" and fe.get("k") == w.k:
                    names = list(fe["caches"])
        if names:
            for nm in names:
                if nm in caches:
                    caches[nm].cache_clear()
            self.stats["cache_clears"] += 1
            self.stats["cache_clears_inflight"] += 1
            self.rec_faults.append({"kind": "F6p", "get": gno, "task": w.task_ord, "k": w.k, "caches": names})
            self._ev("F6p", gno, w.task_ord, w.k, tuple(names))

    def _compare_dup(self, key, a, b):
        cmp = self.hooks.get("deep_equal")
        if cmp is None:
            return
        if not cmp(a, b) and self.dup_mismatch is None:
            self.dup_mismatch = _keystr(key)[:120]

    # -- helpers -------------------------------------------------------------------
    def _drain(self):
        """After a task failed: let every other in-flight task run to completion (deterministically).
        Workers that stay blocked on a lock whose holder never releases it are abandoned."""
        guard = 0
        while True:
            progressed = False
            for job in list(self.jobs):
                job._run_inline()  # pending pool jobs are completed so that waiting tasks can finish
            for w2 in self.workers + self.xworkers:
                if w2.state == "running" and (w2.blocked_on is None or not w2.blocked_on.locked()):
                    w2.sem.release()
                    self.director_sem.acquire()
                    progressed = True
                if w2.state == "done":
                    w2.state = "idle"
                    w2.result = None
                    w2.job = None
            guard += 1
            if not any(w2.state == "running" for w2 in self.workers + self.xworkers):
                break
            if not progressed or guard > self.max_steps:
                self.workers = [w2 for w2 in self.workers if w2.state != "running"]
                self.xworkers = [w2 for w2 in self.xworkers if w2.state != "running"]
                break

    def _abort_workers(self):
        pass  # blocked workers stay parked; the process exits after the run

    def _get_sequential(self, dsk, keys):
        """Reference execution: caller thread, one task at a time, lowest canonical index first."""
        import heapq

        order = {k: i for i, k in enumerate(sorted(dsk, key=_keystr))}
        deps = {k: set(dsk[k].dependencies) & set(dsk) for k in dsk}
        dependents = {k: [] for k in dsk}
        for k, ds in deps.items():
            for d in ds:
                dependents[d].append(k)
        waiting = {k: len(ds) for k, ds in deps.items()}
        heap = [(order[k], k) for k, n in waiting.items() if n == 0]
        heapq.heapify(heap)
        cache = {}
        while heap:
            _, k = heapq.heappop(heap)
            try:
                cache[k] = dsk[k]({d: cache[d] for d in deps[k]})
            except BaseException as e:  # noqa
                self._note_error_site(e)
                raise
            self.stats["tasks"] += 1
            self.steps += 1
            for dd in dependents[k]:
                waiting[dd] -= 1
                if waiting[dd] == 0:
                    heapq.heappush(heap, (order[dd], dd))
        if len(cache) != len(dsk):
            raise SimDeadlock("cyclic graph")
        return _nested_get(keys, cache)

    def _get_inline(self, dsk, keys):
        """A compute() issued from inside a task: run on the calling worker, canonical order."""
        order = {k: i for i, k in enumerate(sorted(dsk, key=_keystr))}
        deps = {k: set(dsk[k].dependencies) & set(dsk) for k in dsk}
        cache = {}
        remaining = sorted(dsk, key=order.get)
        while remaining:
            for k in remaining:
                if all(d in cache for d in deps[k]):
                    cache[k] = dsk[k]({d: cache[d] for d in deps[k]})
                    remaining.remove(k)
                    break
            else:
                raise SimDeadlock("cyclic nested graph")
        return _nested_get(keys, cache)

    def close(self):
        for w in self.workers:
            w.alive = False
            if w.state == "idle":
                w.sem.release()

    # -- reporting -----------------------------------------------------------------
    def trace(self):
        return {
            "preempts": [list(p) for p in self.rec_preempts],
            "choices": [list(c) for c in self.rec_choices],
            "fault_events": self.rec_faults,
        }

    def digests(self):
        return {
            "events": self.log.hexdigest()[:16],
            "interleaving": self.sched_log.hexdigest()[:16],
            "task_order": self.order_log.hexdigest()[:16],
        }


def _roundtrip(obj):
    import cloudpickle

    return cloudpickle.loads(cloudpickle.dumps(obj))


def _nested_get(ind, coll):
    if isinstance(ind, list):
        return tuple(_nested_get(i, coll) for i in ind)
    return coll[ind]


def _keystr(k):
    return repr(k)


def hash_str(s):
    h = 0
    for ch in s:
        h = (h * 131 + ord(ch)) & 0xFFFFFFFF
    return h

"""Batch driver: seeds -> forked runs -> classification -> minimisation -> replay file -> evidence."""
from __future__ import annotations

import argparse
import importlib
import json
import os
import sys
import time

from simkit import runner
from simkit.shrink import minimise

VERIF = runner.VERIF_DIR


def load_known_findings():
    p = os.path.join(VERIF, "known_findings.json")
    if not os.path.exists(p):
        return []
    with open(p) as f:
        return json.load(f).get("findings", [])


def _gen_and_execute(arg):
    modname, seed, tier = arg
    mod = importlib.import_module(modname)
    t = time.monotonic()
    sc = mod.generate(seed, tier)
    try:
        res = mod.execute(sc)
    except BaseException as e:  # noqa
        import traceback

        return {"seed": seed, "harness_error": "exception in run: " + "".join(traceback.format_exception(e))[-3000:]}
    res["seed"] = seed
    res["wall_s"] = round(time.monotonic() - t, 3)  # reporting only; never read by the run itself
    return res


def _execute_scenario(arg):
    modname, sc = arg
    mod = importlib.import_module(modname)
    return mod.execute(sc)


def vclass(res):
    v = res.get("violation")
    if not v:
        return None
    return (v["kind"], v.get("site"))


def main(argv=None):
    ap = argparse.ArgumentParser(prog="vcheck")
    ap.add_argument("prop")
    ap.add_argument("--tier", default=os.environ.get("VERIF_TIER", "quick"), choices=["quick", "thorough"])
    ap.add_argument("--replay")
    ap.add_argument("--runs", type=int)
    ap.add_argument("--lanes", type=int, default=int(os.environ.get("VERIF_LANES", "16")))
    ap.add_argument("--one", type=int, help="run index i only, print the outcome")
    ap.add_argument("--dump", type=int, help="print the scenario of run index i")
    ap.add_argument("--no-evidence", action="store_true")
    ap.add_argument("--no-shrink", action="store_true")
    ap.add_argument("--evidence-dir", default=os.path.join(VERIF, "evidence"))
    ap.add_argument("--replay-dir", default=os.path.join(VERIF, "replays"))
    args = ap.parse_args(argv)

    t0 = time.monotonic()
    prop = args.prop.upper()
    modname = f"checks.{prop.lower()}"
    runner.boot()
    mod = importlib.import_module(modname)
    base_seed = int(os.environ.get("VERIF_SEED", "0"))
    print(f"VERIF_SEED={base_seed} property={prop} tier={args.tier} acryo={runner.acryo_src()}", flush=True)

    if args.replay:
        return replay(mod, modname, prop, args.replay)

    budget = mod.BUDGET[args.tier]
    n_runs = args.runs or int(os.environ.get("VERIF_RUNS", "0")) or budget["runs"]
    timeout = float(budget.get("timeout", 120.0))
    seeds = [runner.derive_seed(base_seed, prop, args.tier, i) for i in range(n_runs)]

    if args.dump is not None:
        print(json.dumps(mod.generate(seeds[args.dump], args.tier), indent=1, default=runner._json_default))
        return 0
    if args.one is not None:
        res = runner.run_one(_gen_and_execute, (modname, seeds[args.one], args.tier), timeout)
        print(json.dumps({k: v for k, v in res.items() if k != "trace"}, indent=1, default=runner._json_default))
        return 0 if res.get("ok") else 1

    budget_s = float(os.environ.get("VERIF_BUDGET_S", "0")) or float(budget.get("budget_s", 0)) or None
    stop_at = (t0 + budget_s) if budget_s else None

    # determinism probe: the first few seeds are executed twice; digests must agree
    n_probe = min(4, n_runs)
    jobs = [(modname, s, args.tier) for s in seeds] + [(modname, s, args.tier) for s in seeds[:n_probe]]
    results = runner.run_many(_gen_and_execute, jobs, lanes=args.lanes, timeout=timeout, stop_at=stop_at)
    probe = results[n_runs:]
    results = results[:n_runs]
    done = [r for r in results if r is not None]
    harness = [r for r in done if "harness_error" in r]
    good = [r for r in done if "harness_error" not in r]
    nondet = []
    for a, b in zip(results[:n_probe], probe):
        if a is None or b is None or "harness_error" in a or "harness_error" in b:
            continue
        if a.get("digests") != b.get("digests") or a.get("result_digest") != b.get("result_digest") or vclass(a) != vclass(b):
            nondet.append(a.get("seed"))

    exit_code = 0
    lines = []
    if nondet:
        lines.append(f"HARNESS-ERROR nondeterministic-run property={prop} seeds={nondet}")
        exit_code = 2
    for r in harness[:5]:
        lines.append(f"HARNESS-ERROR property={prop} seed={r.get('seed')} " + " | ".join(str(r['harness_error']).strip().splitlines()[-6:])[:900])
    if harness:
        exit_code = 2

    # violations -> classes
    findings = [f for f in load_known_findings() if f.get("property") == prop]
    open_findings = [f for f in findings if f.get("status") == "open"]
    classes = {}
    for r in good:
        c = vclass(r)
        if c is not None:
            classes.setdefault(c, []).append(r)
    known_hits = {f["id"]: 0 for f in open_findings}
    new_violations = []
    for c, rs in sorted(classes.items(), key=lambda kv: repr(kv[0])):
        unmatched = []
        for r in rs:
            sc = mod.generate(r["seed"], args.tier)
            fid = match_known(mod, r, sc, open_findings)
            if fid:
                known_hits[fid] += 1
            else:
                unmatched.append(r)
        if unmatched:
            new_violations.append((c, unmatched))

    replays = []
    for c, rs in new_violations[:3]:
        r = rs[0]
        sc = mod.generate(r["seed"], args.tier)
        path, status = report_violation(mod, modname, prop, args, sc, r, timeout)
        if status == "nondeterministic":
            lines.append(f"HARNESS-ERROR nondeterministic-violation property={prop} seed={r['seed']} class={c}")
            exit_code = max(exit_code, 2)
        else:
            lines.append(f"VIOLATION property={prop} replay={path}")
            print(f"  class={c} seed={r['seed']} occurrences={len(rs)} detail={r['violation'].get('detail')}", flush=True)
            replays.append(path)
            exit_code = 1
    for c, rs in new_violations[3:]:
        print(f"  (further violation class {c}: {len(rs)} occurrences, first seed {rs[0]['seed']})")

    for f in open_findings:
        lines.append(f"KNOWN-FINDING: property={prop} {f['id']} {f['what']} (matched {known_hits.get(f['id'], 0)} runs in this batch)")

    wall = time.monotonic() - t0
    if not args.no_evidence:
        write_evidence(mod, prop, args, base_seed, seeds, results, good, harness, new_violations, known_hits, wall, replays)
    for ln in lines:
        print(ln, flush=True)
    walls = sorted(r.get("wall_s", 0) for r in good)
    if walls:
        print(f"  per-run wall: median={walls[len(walls)//2]:.2f}s p90={walls[int(len(walls)*0.9)]:.2f}s max={walls[-1]:.2f}s sum={sum(walls):.0f}s "
              f"generator_defects={sum(1 for r in good if r.get('generator_defect'))}", flush=True)
    slow = sorted(good, key=lambda r: -r.get("wall_s", 0))[:3]
    print("  slowest: " + ", ".join(f"seed {r.get('seed')} {r.get('wall_s')}s tasks={r.get('stats', {}).get('tasks')}" for r in slow), flush=True)
    seen_notes = set()
    for r in good:
        for nt in r.get("notes") or []:
            key = nt.split(":")[0][:60] + nt[-60:]
            if key not in seen_notes and len(seen_notes) < 8:
                seen_notes.add(key)
                print(f"  note(seed {r.get('seed')}): {nt}", flush=True)
    n_viol = sum(len(rs) for _, rs in new_violations)
    print(f"{prop} {args.tier}: runs={len(done)}/{n_runs} ok={sum(1 for r in good if r.get('ok'))} violations={n_viol} "
          f"known={sum(known_hits.values())} harness_errors={len(harness)} wall={wall:.1f}s exit={exit_code}", flush=True)
    return exit_code


def match_known(mod, res, sc, open_findings):
    fn = getattr(mod, "match_known_finding", None)
    if fn is None:
        return None
    for f in open_findings:
        try:
            if fn(f, res, sc):
                return f["id"]
        except Exception:
            continue
    return None


def report_violation(mod, modname, prop, args, sc, res, timeout):
    """Minimise, verify that the replay reproduces exactly, write the replay file."""
    target = vclass(res)
    sc_min, res_min, nexec = sc, res, 0
    if not args.no_shrink:
        sc_min, res_min, nexec = minimise(mod, modname, sc, res, lanes=args.lanes, timeout=timeout)
    if hasattr(mod, "to_trace_scenario"):
        sc_file = mod.to_trace_scenario(sc_min, res_min) if sc_min.get("schedule", {}).get("mode") == "prng" else sc_min
    else:
        sc_file = sc_min
    # replay twice in fresh forks: must fail the same way
    rr = runner.run_many(_execute_scenario, [(modname, sc_file), (modname, sc_file)], lanes=2, timeout=timeout * 2)
    ok = all(r is not None and "harness_error" not in r and vclass(r) == target for r in rr)
    same = ok and rr[0].get("result_digest") == rr[1].get("result_digest") and rr[0].get("digests") == rr[1].get("digests")
    os.makedirs(args.replay_dir, exist_ok=True)
    path = os.path.join(args.replay_dir, f"{prop}-{res['seed']}.json")
    doc = {
        "property": prop, "seed": res["seed"], "tier": args.tier, "scenario": sc_file,
        "violation": res_min.get("violation"), "expected_class": list(target),
        "original_scenario_ops": res.get("ops"), "shrink_executions": nexec,
        "replay_digests": rr[0].get("digests") if ok else None,
        "env": runner.describe_env(),
    }
    with open(path, "w") as f:
        json.dump(doc, f, indent=1, default=runner._json_default)
    if not (ok and same):
        # fall back to the unminimised scenario before giving up
        sc_file0 = mod.to_trace_scenario(sc, res) if hasattr(mod, "to_trace_scenario") and sc.get("schedule", {}).get("mode") == "prng" else sc
        rr = runner.run_many(_execute_scenario, [(modname, sc_file0), (modname, sc_file0)], lanes=2, timeout=timeout * 2)
        ok0 = all(r is not None and "harness_error" not in r and vclass(r) == target for r in rr)
        if ok0:
            doc["scenario"] = sc_file0
            doc["shrink_executions"] = 0
            doc["note"] = "minimised scenario did not replay identically; unminimised scenario stored"
            with open(path, "w") as f:
                json.dump(doc, f, indent=1, default=runner._json_default)
            return path, "ok"
        return path, "nondeterministic"
    return path, "ok"


def replay(mod, modname, prop, path):
    with open(path) as f:
        doc = json.load(f)
    sc = doc["scenario"]
    res = runner.run_one(_execute_scenario, (modname, sc), timeout=600.0)
    if "harness_error" in res:
        print(f"HARNESS-ERROR property={prop} replay failed to run: {res['harness_error'][:500]}")
        return 2
    v = res.get("violation")
    print(json.dumps({"violation": v, "digests": res.get("digests"), "stats": res.get("stats")}, indent=1, default=runner._json_default))
    if v:
        exp = doc.get("expected_class")
        tag = "same class as recorded" if exp and list(vclass(res)) == list(exp) else "DIFFERENT class than recorded"
        print(f"VIOLATION property={prop} replay={path}   ({tag})")
        return 1
    print(f"replay of {path}: property held (violation did not reproduce on this tree)")
    return 0


def write_evidence(mod, prop, args, base_seed, seeds, results, good, harness, new_violations, known_hits, wall, replays):
    from collections import Counter

    os.makedirs(args.evidence_dir, exist_ok=True)
    agg = Counter()
    inter = set()
    orders = set()
    ops = Counter()
    fault_fired = Counter()
    for r in good:
        st = r.get("stats", {})
        for k, v in st.items():
            if isinstance(v, (int, float)) and not isinstance(v, bool):
                agg[k] += v
        d = r.get("digests", {})
        if r.get("nontrivial"):
            inter.add(d.get("events"))
        orders.add(d.get("task_order"))
        for o in r.get("ops", []) or []:
            ops[o] += 1
        if st.get("switches", 0) > 0:
            fault_fired["F2_preemption_runs"] += 1
        if st.get("max_inflight", 0) > 1:
            fault_fired["F1_concurrent_runs"] += 1
        if st.get("cache_clears", 0) > 0:
            fault_fired["F6_cache_clear_runs"] += 1
        if st.get("dup_exec", 0) > 0:
            fault_fired["F7_reexecution_runs"] += 1
        if st.get("serialised_tasks", 0) > 0:
            fault_fired["F10_process_boundary_runs"] += 1
        if st.get("f8_delivered", 0) > 0:
            fault_fired["F8_read_error_runs"] += 1
        for k, v in (r.get("faults_fired") or {}).items():
            fault_fired[k] += v
    samples = []
    for i, r in enumerate(results):
        if r is None or "harness_error" in r:
            continue
        sc = mod.generate(seeds[i], args.tier)
        view = mod.sample_view(sc) if hasattr(mod, "sample_view") else sc
        samples.append({"run_index": i, "seed": seeds[i], "scenario": view, "trace_head": r.get("trace_head"),
                        "digests": r.get("digests"), "stats": r.get("stats"), "ok": r.get("ok")})
        if len(samples) >= 3:
            break
    n_eval = len(good)
    extra = mod.evidence_extra(good) if hasattr(mod, "evidence_extra") else {}
    # schedule / fault-plan mix actually drawn (re-generated from the seeds; first 4000 runs)
    mix = {"policy": Counter(), "granularity": Counter(), "workers": Counter(), "preempt_p": Counter(), "fault_plan": Counter(), "hot_boost": Counter()}
    for i, r in enumerate(results[:4000]):
        if r is None or "harness_error" in r:
            continue
        sch = mod.generate(seeds[i], args.tier).get("schedule", {})
        mix["policy"][str(sch.get("policy"))] += 1
        mix["granularity"][str(sch.get("granularity"))] += 1
        mix["workers"][str(sch.get("workers"))] += 1
        mix["preempt_p"][str(sch.get("preempt_p"))] += 1
        mix["hot_boost"][str(sch.get("hot_boost"))] += 1
        mix["fault_plan"]["+".join(sorted(sch.get("faults") or {})) or "none"] += 1
    extra["schedule_mix"] = {k: dict(v) for k, v in mix.items()}
    cov = {
        "evaluations": n_eval,
        "distinct_nontrivial": len(inter),
        "rule": getattr(mod, "RULE", "one evaluation = one seeded scenario (world, operations, storage layout, dask knobs) executed under one seeded "
                "schedule/fault sequence in a fresh fork; a run is non-trivial when at least one context switch, concurrent task, "
                "cache clear, re-execution or read error actually happened; distinct = distinct SHA-256 digest of the full ordered event log"),
        "samples": samples,
        "runs_per_hour": round(n_eval / max(wall, 1e-6) * 3600),
        "seeds": {"VERIF_SEED": base_seed, "derivation": "sha256(VERIF_SEED/property/tier/index)[:6]", "first": seeds[:3], "count": len(seeds)},
        "simulated_time": {"scheduler_steps": agg.get("steps", 0), "trace_events": agg.get("events", 0), "tasks": agg.get("tasks", 0),
                           "computes": agg.get("gets", 0), "note": "acryo has no clocks or timers; simulated time is counted in scheduler steps and trace events"},
        "fault_kinds_fired_runs": dict(fault_fired),
        "fault_totals": {"context_switches": agg.get("switches", 0), "cache_clears": agg.get("cache_clears", 0),
                         "cache_clears_while_task_parked": agg.get("cache_clears_inflight", 0), "duplicate_executions": agg.get("dup_exec", 0),
                         "read_errors_delivered": agg.get("f8_delivered", 0), "lock_blocks": agg.get("lock_blocks", 0)},
        "distinct_interleavings": len(inter),
        "distinct_task_orders": len(orders),
        "probes": {k: agg.get(k, 0) for k in ("cache_get_overlap", "nested_gets", "twin_ops", "iso_ops", "padded", "sites", "hot_events", "storage_reads", "history_steps", "splits_decoded", "binned_loaders", "layouts", "particles", "arrays_watched", "held_array_changed", "stalls", "serialised_tasks")},
        "operation_mix": dict(ops),
        "components": {
            "real": ["acryo (all modules, from the working tree)", "dask graph construction/optimisation (delayed, dask.array, rechunk, map_overlap)",
                     "numpy", "scipy", "polars", "scikit-learn"],
            "stub": ["dask scheduler -> simkit.sched.Sim.get", "worker threads: real threads, baton-passing (one runs at a time)",
                     "tomogram storage -> simkit.world.SimStorage (memmap-like)", "uuid.uuid4 -> seeded", "global np.random/random state -> seeded"],
            "not_exercised": ["cupy backend", "dask.distributed", "real mrc/tif files"],
        },
        "harness_errors": len(harness),
        "known_finding_hits": known_hits,
        "replays": replays,
    }
    cov.update(extra)
    ev = {
        "property_id": prop,
        "tier": args.tier,
        "seed": base_seed,
        "level": getattr(mod, "LEVEL", "exploration"),
        "coverage": cov,
        "assumptions": getattr(mod, "ASSUMPTIONS", []) + [
            "pre-emption only at Python line/opcode trace events inside acryo frames; races inside a single C call are invisible",
            "numpy backend only; real dask schedulers are represented by the SimScheduler stub (fidelity self-test compares them)",
            "sampling, not enumeration: a clean batch is evidence, not proof",
        ],
        "wall_s": round(wall, 2),
        "violations": sum(len(rs) for _, rs in new_violations),
    }
    path = os.path.join(args.evidence_dir, f"{prop}.json")
    with open(path, "w") as f:
        json.dump(ev, f, indent=1, default=runner._json_default)

"""Canonical digests and deep comparison of acryo results."""
from __future__ import annotations

import hashlib

import numpy as np


def _walk(obj, h):
    import polars as pl

    if obj is None:
        h.update(b"N")
    elif isinstance(obj, np.ndarray):
        a = np.ascontiguousarray(obj)
        h.update(b"A" + str(a.dtype).encode() + repr(a.shape).encode())
        if a.dtype == object:
            for x in a.ravel():
                _walk(x, h)
        else:
            h.update(a.tobytes())
    elif isinstance(obj, (bool, int, str)):
        h.update(b"S" + repr(obj).encode())
    elif isinstance(obj, (float, np.floating)):
        h.update(b"F" + np.float64(obj).tobytes())
    elif isinstance(obj, np.integer):
        h.update(b"S" + repr(int(obj)).encode())
    elif isinstance(obj, np.bool_):
        h.update(b"S" + repr(bool(obj)).encode())
    elif isinstance(obj, pl.DataFrame):
        h.update(b"D" + repr(obj.columns).encode() + repr([str(t) for t in obj.dtypes]).encode())
        for c in obj.columns:
            s = obj[c]
            try:
                _walk(s.to_numpy(), h)
            except Exception:
                h.update(repr(s.to_list()).encode())
    elif isinstance(obj, pl.Series):
        _walk(obj.to_numpy(), h)
    elif isinstance(obj, dict):
        h.update(b"M")
        for k in obj:  # insertion order is part of the result
            h.update(repr(k).encode())
            _walk(obj[k], h)
    elif isinstance(obj, (list, tuple)):
        h.update(b"L" + str(len(obj)).encode())
        for x in obj:
            _walk(x, h)
    elif hasattr(obj, "pos") and hasattr(obj, "quaternion") and hasattr(obj, "features"):
        h.update(b"MOL")
        _walk(np.asarray(obj.pos), h)
        _walk(np.asarray(obj.quaternion()), h)
        _walk(obj.features, h)
    elif hasattr(obj, "molecules") and hasattr(obj, "output_shape"):
        h.update(b"LDR" + repr((obj.order, obj.scale, repr(obj.output_shape), obj.corner_safe)).encode())
        _walk(obj.molecules, h)
    else:
        h.update(b"R" + repr(obj).encode())


def digest(obj) -> str:
    h = hashlib.sha256()
    _walk(obj, h)
    return h.hexdigest()[:20]


def deep_equal(a, b) -> bool:
    """Bitwise structural equality (used for duplicate executions of one task)."""
    try:
        return digest(a) == digest(b)
    except Exception:
        return True  # objects we cannot canonicalise are not judged


def array_checksum(a) -> str:
    a = np.ascontiguousarray(a)
    return hashlib.sha256(a.tobytes()).hexdigest()[:16]


def max_abs_diff(a, b) -> float:
    a = np.asarray(a, dtype=np.float64)
    b = np.asarray(b, dtype=np.float64)
    if a.shape != b.shape:
        return float("inf")
    if a.size == 0:
        return 0.0
    d = np.abs(a - b)
    if np.isnan(d).any():
        # NaN in the same places is equality; NaN in one only is a difference
        if (np.isnan(a) != np.isnan(b)).any():
            return float("inf")
        d = np.where(np.isnan(d), 0.0, d)
    return float(d.max())


EPS32 = float(np.finfo(np.float32).eps)


def reassoc_bound(n_terms: int, max_abs: float, factor: float = 8.0) -> float:
    """Bound on the difference between two float32 evaluations of the same sum/mean of
    `n_terms` terms of magnitude <= max_abs that differ only in association."""
    return factor * EPS32 * max(1, n_terms) * max(max_abs, 1e-30)

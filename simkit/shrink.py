"""Minimisation of a failing run: scenario (ops/world/knobs), then faults, then the schedule trace.

Every candidate is executed in a fresh fork; a candidate is accepted only if the *same violation
class* (kind, site) persists.  Candidates of one round are evaluated in parallel."""
from __future__ import annotations

import importlib
import time

from simkit import runner


def _exec(arg):
    modname, sc = arg
    mod = importlib.import_module(modname)
    return mod.execute(sc)


def _vclass(res):
    if not res or "harness_error" in res:
        return None
    v = res.get("violation")
    return (v["kind"], v.get("site")) if v else None


class Budget:
    def __init__(self, max_exec, max_s):
        self.left = max_exec
        self.t_end = time.monotonic() + max_s
        self.used = 0

    def ok(self):
        return self.left > 0 and time.monotonic() < self.t_end

    def take(self, n):
        n = min(n, self.left)
        self.left -= n
        self.used += n
        return n


def _try_all(modname, cands, target, lanes, timeout, budget):
    """Evaluate candidates in parallel; return (index, result) of the first that still fails the same way."""
    n = budget.take(len(cands))
    cands = cands[:n]
    if not cands:
        return None, None
    rs = runner.run_many(_exec, [(modname, c) for c in cands], lanes=lanes, timeout=timeout)
    for i, r in enumerate(rs):
        if _vclass(r) == target:
            return i, r
    return None, None


def _ddmin(items, make, modname, target, lanes, timeout, budget):
    """Delta debugging over a list; make(sublist) -> scenario. Returns (minimal list, last result or None)."""
    last = None
    n = 2
    while len(items) >= 1 and budget.ok():
        if len(items) == 1:
            i, r = _try_all(modname, [make([])], target, lanes, timeout, budget)
            if i is not None:
                items, last = [], r
            break
        size = max(1, len(items) // n)
        chunks = [items[i:i + size] for i in range(0, len(items), size)]
        # complements first (remove one chunk), they shrink fastest when they work
        comps = [[x for j, c in enumerate(chunks) if j != k for x in c] for k in range(len(chunks))]
        i, r = _try_all(modname, [make(c) for c in comps], target, lanes, timeout, budget)
        if i is not None:
            items, last = comps[i], r
            n = max(2, n - 1)
            continue
        if size == 1:
            break
        n = min(len(items), n * 2)
    return items, last


def _prefix_search(items, make, modname, target, lanes, timeout, budget):
    """Shortest prefix of a recorded decision list that still fails (decisions after the failure point are irrelevant;
    the canonical fallback takes over where the list ends).  Several cut points are tried in parallel per round."""
    last = None
    lo, hi = 0, len(items)  # invariant: items[:hi] fails
    while hi - lo > 1 and budget.ok():
        cuts = sorted({lo + (hi - lo) * j // 5 for j in range(1, 5)} - {lo, hi})
        if not cuts:
            break
        n = budget.take(len(cuts))
        cuts = cuts[:n]
        rs = runner.run_many(_exec, [(modname, make(items[:c])) for c in cuts], lanes=lanes, timeout=timeout)
        ok_cuts = [c for c, r in zip(cuts, rs) if _vclass(r) == target]
        if ok_cuts:
            hi = min(ok_cuts)
            last = rs[cuts.index(hi)]
            bad = [c for c in cuts if c < hi]
            lo = max(bad) if bad else lo
        else:
            lo = max(cuts)
    return items[:hi], last


def minimise(mod, modname, sc, res, lanes=16, timeout=120.0, max_exec=600, max_s=240.0):
    target = _vclass(res)
    total = Budget(max_exec, max_s)
    # 1. scenario level (prng schedule re-drawn from the same seed for every candidate): at most 40 % of the budget
    budget = Budget(int(max_exec * 0.4), max_s * 0.4)
    progress = True
    while progress and budget.ok() and hasattr(mod, "shrink_candidates"):
        progress = False
        cands = mod.shrink_candidates(sc)
        if not cands:
            break
        i, r = _try_all(modname, cands, target, lanes, timeout, budget)
        if i is not None:
            sc, res, progress = cands[i], r, True
        elif sc.get("schedule", {}).get("mode") == "prng" and sc["schedule"].get("preempt_p", 0) > 0 and budget.ok():
            # a schedule-dependent violation is easily lost when the scenario changes under the same PRNG stream:
            # retry the most aggressive candidates under a few other schedule seeds
            re = []
            for c in cands[:6]:
                for k in (1, 2, 3):
                    c2 = dict(c)
                    c2["schedule"] = dict(c["schedule"], seed=c["schedule"].get("seed", 0) + 7919 * k)
                    re.append(c2)
            i, r = _try_all(modname, re, target, lanes, timeout, budget)
            if i is not None:
                sc, res, progress = re[i], r, True
    # 2. explicit trace (the rest of the budget)
    used1 = budget.used
    budget = Budget(max_exec - used1, max(10.0, total.t_end - time.monotonic()))
    budget.used = used1
    if not hasattr(mod, "to_trace_scenario") or sc.get("schedule", {}).get("mode") != "prng":
        return sc, res, budget.used
    sct = mod.to_trace_scenario(sc, res)
    i, r = _try_all(modname, [sct], target, lanes, timeout, budget)
    if i is None:
        return sc, res, budget.used  # the trace does not reproduce: keep the prng form
    sc, res = sct, r
    sch = sc["schedule"]

    def with_sched(**kw):
        s2 = dict(sc)
        s2["schedule"] = dict(sc["schedule"], **kw)
        return s2

    # 3. faults, one at a time
    fe = list(sch.get("fault_events") or [])
    k = 0
    while k < len(fe) and budget.ok():
        cand = fe[:k] + fe[k + 1:]
        i, r = _try_all(modname, [with_sched(fault_events=cand)], target, lanes, timeout, budget)
        if i is not None:
            fe, res = cand, r
            sc = with_sched(fault_events=fe)
        else:
            k += 1
    # 4. pre-emption points (ddmin), then choices, then workers
    pre = list(sc["schedule"].get("preempts") or [])
    # 4a. whole tasks first: a task that is not part of the race can run without being pre-empted at all
    groups = sorted({(p_[0], p_[1]) for p_ in pre})
    if len(groups) > 1 and budget.ok():
        n = budget.take(len(groups))
        groups = groups[:n]
        cands = [[p_ for p_ in pre if (p_[0], p_[1]) != g] for g in groups]
        rs = runner.run_many(_exec, [(modname, with_sched(preempts=c)) for c in cands], lanes=lanes, timeout=timeout)
        removable = [g for g, r in zip(groups, rs) if _vclass(r) == target]
        if removable:
            allgone = [p_ for p_ in pre if (p_[0], p_[1]) not in set(removable)]
            i, r = _try_all(modname, [with_sched(preempts=allgone)], target, lanes, timeout, budget)
            if i is not None:
                pre = allgone
                sc, res = with_sched(preempts=pre), r
            else:
                for g in removable:
                    if not budget.ok():
                        break
                    cand = [p_ for p_ in pre if (p_[0], p_[1]) != g]
                    i, r = _try_all(modname, [with_sched(preempts=cand)], target, lanes, timeout, budget)
                    if i is not None:
                        pre = cand
                        sc, res = with_sched(preempts=pre), r
    if len(pre) > 4 and budget.ok():
        pre_p, r = _prefix_search(pre, lambda sub: with_sched(preempts=sub), modname, target, lanes, timeout, budget)
        if r is not None:
            pre = pre_p
            sc, res = with_sched(preempts=pre), r
    if pre and budget.ok():
        pre2, r = _ddmin(pre, lambda sub: with_sched(preempts=sub), modname, target, lanes, timeout, budget)
        if r is not None:
            sc, res = with_sched(preempts=pre2), r
    ch = list(sc["schedule"].get("choices") or [])
    if ch and budget.ok():
        i, r = _try_all(modname, [with_sched(choices=[])], target, lanes, timeout, budget)
        if i is not None:
            sc, res = with_sched(choices=[]), r
        else:
            if len(ch) > 8:
                ch_p, r = _prefix_search(ch, lambda sub: with_sched(choices=sub), modname, target, lanes, timeout, budget)
                if r is not None:
                    ch = ch_p
                    sc, res = with_sched(choices=ch), r
            ch2, r = _ddmin(ch, lambda sub: with_sched(choices=sub), modname, target, lanes, timeout, budget)
            if r is not None:
                sc, res = with_sched(choices=ch2), r
    for wk in (2, 3):
        if sc["schedule"].get("workers", 0) > wk and budget.ok():
            i, r = _try_all(modname, [with_sched(workers=wk)], target, lanes, timeout, budget)
            if i is not None:
                sc, res = with_sched(workers=wk), r
                break
    return sc, res, budget.used

"""Process model: pinned environment, pre-imported zygote, one fork per simulated run.

driver (zygote: heavy imports done, acryo never *executed*)
  └─ lane 0..N-1 (fork of the zygote; only forks children and relays their results)
       └─ child (fork of the lane): executes exactly one run, writes one JSON document, _exit()

No threads exist in any process that forks.  A run is a pure function of (argument, code).
"""
from __future__ import annotations

import faulthandler
import hashlib
import json
import os
import select
import signal
import sys
import time
import traceback

ENV_PINS = {
    "PYTHONHASHSEED": "0",
    "OPENBLAS_NUM_THREADS": "1",
    "OMP_NUM_THREADS": "1",
    "MKL_NUM_THREADS": "1",
    "NUMEXPR_NUM_THREADS": "1",
    "POLARS_MAX_THREADS": "1",
    "HANJINLIU_ACRYO_VERIF": "1",
    "PYTHONDONTWRITEBYTECODE": "1",
    "PYTHONWARNINGS": "ignore",
}

VERIF_DIR = os.path.dirname(os.path.dirname(os.path.abspath(__file__)))


def ensure_env():
    """Re-exec once with the pinned environment (hash seed and native thread pools)."""
    want = dict(ENV_PINS)
    if "VERIF_HASHSEED" in os.environ:  # determinism self-test only
        want["PYTHONHASHSEED"] = os.environ["VERIF_HASHSEED"]
    if any(os.environ.get(k) != v for k, v in want.items()):
        os.environ.update(want)
        os.execv(sys.executable, [sys.executable] + sys.argv)


def acryo_src():
    return os.path.abspath(os.environ.get("ACRYO_SRC", "/repo"))


_BOOTED = False


def boot():
    """Zygote start-up: install seams, import everything heavy, never execute acryo functions."""
    global _BOOTED
    if _BOOTED:
        return
    _BOOTED = True
    src = acryo_src()
    sys.path.insert(0, src)
    if VERIF_DIR not in sys.path:
        sys.path.insert(1, VERIF_DIR)
    from simkit import sched
    import warnings

    warnings.filterwarnings("ignore")
    import numpy  # noqa
    import scipy.ndimage, scipy.fft, scipy.spatial.transform  # noqa
    import dask, dask.array, dask.delayed  # noqa
    import dask.array.linalg, dask.array.overlap  # noqa
    import polars  # noqa
    import sklearn.cluster, sklearn.utils.validation  # noqa
    import cloudpickle  # noqa

    # seams for locks / thread pools / threads created by acryo code: installed after the third-party imports (which keep
    # the real classes) and before acryo is imported
    sched.install(os.path.join(src, "acryo"))
    import acryo  # noqa
    import acryo.alignment, acryo.loader, acryo.pick, acryo.classification, acryo.tilt, acryo.backend  # noqa
    import acryo.classification._dask_pca  # noqa
    import acryo.loader._mock  # noqa
    import acryo.pipe  # noqa

    here = os.path.abspath(acryo.__file__)
    if not here.startswith(src + os.sep):
        raise SystemExit(f"HARNESS-ERROR acryo imported from {here}, expected under {src}")
    dask.config.set({"array.slicing.split_large_chunks": False})


def describe_env():
    import numpy, scipy, dask, polars, sklearn, subprocess

    try:
        rev = subprocess.run(
            ["git", "-C", acryo_src(), "describe", "--always", "--dirty"],
            capture_output=True, text=True, timeout=20,
        ).stdout.strip()
    except Exception:
        rev = "unknown"
    return {
        "python": sys.version.split()[0], "numpy": numpy.__version__, "scipy": scipy.__version__,
        "dask": dask.__version__, "polars": polars.__version__, "sklearn": sklearn.__version__,
        "acryo_src": acryo_src(), "acryo_rev": rev,
    }


def derive_seed(*parts) -> int:
    h = hashlib.sha256("/".join(str(p) for p in parts).encode()).digest()
    return int.from_bytes(h[:6], "big")


# ------------------------------------------------------------------------------------------
def _write_all(fd, data: bytes):
    mv = memoryview(data)
    while mv:
        n = os.write(fd, mv)
        mv = mv[n:]


def _run_child(fn, arg, timeout):
    """Fork a child that runs fn(arg); return its JSON result or a harness-error record."""
    r, w = os.pipe()
    sys.stdout.flush()
    sys.stderr.flush()
    pid = os.fork()
    if pid == 0:
        code = 0
        try:
            os.close(r)
            faulthandler.enable()
            faulthandler.dump_traceback_later(max(1.0, timeout - 1.0), exit=False)
            try:
                res = fn(arg)
            except BaseException as e:  # noqa
                res = {"harness_error": "exception in run: " + "".join(traceback.format_exception(e))[-3000:]}
            try:
                data = json.dumps(res, default=_json_default).encode()
            except Exception as e:  # noqa
                data = json.dumps({"harness_error": f"unserialisable result: {e!r}"}).encode()
            _write_all(w, data)
        except BaseException:
            code = 3
        finally:
            os._exit(code)
    os.close(w)
    buf = bytearray()
    deadline = time.monotonic() + timeout
    timed_out = False
    while True:
        left = deadline - time.monotonic()
        if left <= 0:
            timed_out = True
            break
        rl, _, _ = select.select([r], [], [], min(left, 1.0))
        if rl:
            b = os.read(r, 1 << 16)
            if not b:
                break
            buf += b
    os.close(r)
    if timed_out:
        try:
            os.kill(pid, signal.SIGKILL)
        except ProcessLookupError:
            pass
        os.waitpid(pid, 0)
        return {"harness_error": f"timeout after {timeout:.0f}s"}
    _, status = os.waitpid(pid, 0)
    if not buf:
        return {"harness_error": f"child died without result (status {status})"}
    try:
        return json.loads(bytes(buf))
    except Exception as e:  # noqa
        return {"harness_error": f"bad child output: {e!r}"}


def _json_default(o):
    import numpy as np

    if isinstance(o, (np.integer,)):
        return int(o)
    if isinstance(o, (np.floating,)):
        return float(o)
    if isinstance(o, np.ndarray):
        return o.tolist()
    if isinstance(o, (set, frozenset)):
        return sorted(o)
    if isinstance(o, tuple):
        return list(o)
    return repr(o)


def run_one(fn, arg, timeout=120.0):
    """One run in a fresh fork of the current (zygote) process."""
    return _run_child(fn, arg, timeout)


def run_many(fn, args, lanes=16, timeout=120.0, stop_at=None, progress=None):
    """Run fn(arg) for every arg, each in its own fork, on `lanes` parallel lanes.

    Returns a list aligned with args; entries are None for runs skipped because the soft
    deadline `stop_at` (time.monotonic value) had passed before they were started."""
    n = len(args)
    if n == 0:
        return []
    lanes = max(1, min(lanes, n))
    sys.stdout.flush()
    sys.stderr.flush()
    fds = {}
    pids = []
    # ticket dispenser: lanes atomically read the next run index (8 bytes) from a shared pipe
    tr, tw = os.pipe()
    tickets = b"".join(i.to_bytes(8, "big") for i in range(n))
    for lane in range(lanes):
        r, w = os.pipe()
        pid = os.fork()
        if pid == 0:
            try:
                os.close(r)
                os.close(tw)
                for fd in fds:
                    os.close(fd)
                while True:
                    tk = os.read(tr, 8)
                    if len(tk) < 8:
                        break
                    i = int.from_bytes(tk, "big")
                    if stop_at is not None and time.monotonic() > stop_at:
                        continue  # drain remaining tickets without running them
                    res = _run_child(fn, args[i], timeout)
                    if "harness_error" in res and str(res["harness_error"]).startswith("timeout"):
                        # the machine may be overloaded: retry once with a doubled limit
                        res2 = _run_child(fn, args[i], timeout * 2)
                        if "harness_error" not in res2:
                            res2["retried_after_timeout"] = True
                        res = res2
                    _write_all(w, (json.dumps([i, res], default=_json_default) + "\n").encode())
                _write_all(w, (json.dumps([-1, {"lane_done": lane}]) + "\n").encode())
            finally:
                os._exit(0)
        os.close(w)
        fds[r] = bytearray()
        pids.append(pid)
    os.close(tr)
    os.set_blocking(tw, False)
    out = [None] * n
    lanes_done = set()
    open_fds = set(fds)
    done = 0
    tpos = 0
    while open_fds:
        wl = [tw] if tw is not None else []
        rl, wready, _ = select.select(list(open_fds), wl, [], 5.0)
        if wready:
            try:
                tpos += os.write(tw, tickets[tpos:tpos + 4096])
            except BlockingIOError:
                pass
            if tpos >= len(tickets):
                os.close(tw)
                tw = None
        for fd in rl:
            b = os.read(fd, 1 << 20)
            if not b:
                open_fds.discard(fd)
                os.close(fd)
                continue
            buf = fds[fd]
            buf += b
            while True:
                nl = buf.find(b"\n")
                if nl < 0:
                    break
                line = bytes(buf[:nl])
                del buf[: nl + 1]
                i, res = json.loads(line)
                if i < 0:
                    lanes_done.add(res["lane_done"])
                    continue
                out[i] = res
                done += 1
                if progress:
                    progress(done, n)
    for pid in pids:
        os.waitpid(pid, 0)
    if tw is not None:
        os.close(tw)
    if len(lanes_done) < lanes and stop_at is None:
        for i in range(n):
            if out[i] is None:
                out[i] = {"harness_error": "a lane died before this seed was run"}
    return out


def call_in_fork(fn, arg):
    """Run fn(arg) in a forked copy of the current process and return its (pickled) result.
    Used to keep reference computations from warming process-global state before the simulated execution."""
    import pickle

    r, w = os.pipe()
    sys.stdout.flush()
    sys.stderr.flush()
    pid = os.fork()
    if pid == 0:
        code = 0
        try:
            os.close(r)
            try:
                res = ("ok", fn(arg))
            except BaseException as e:  # noqa
                res = ("exc", "".join(traceback.format_exception(e))[-3000:])
            _write_all(w, pickle.dumps(res, protocol=pickle.HIGHEST_PROTOCOL))
        except BaseException:
            code = 3
        finally:
            os._exit(code)
    os.close(w)
    buf = bytearray()
    while True:
        b = os.read(r, 1 << 20)
        if not b:
            break
        buf += b
    os.close(r)
    os.waitpid(pid, 0)
    if not buf:
        raise RuntimeError("reference child died without a result")
    st, val = pickle.loads(bytes(buf))
    if st != "ok":
        raise RuntimeError("reference child failed: " + str(val))
    return val
